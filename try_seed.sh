#!/bin/bash
# try_seed.sh <seeded-id> <Cxx...>: apply /verif/seeded/<id>/patch.diff to /repo, run the quick checks, undo.
id=$1; shift
cd /repo && git apply /verif/seeded/$id/patch.diff || exit 2
trap 'git -C /repo checkout -- .' EXIT
for p in "$@"; do
  (cd /verif && VERIF_NO_REPLAY=1 ./check $p --tier ${TIER:-quick} 2>&1 | grep -v "KNOWN\|built\|note:\|WARNING" | head -${LINES_MAX:-4} | cut -c1-${COLS_MAX:-500})
done
rm -rf /verif/replays/new
