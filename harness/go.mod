module verif/harness

go 1.23

toolchain go1.23.5

require (
	gonum.org/v1/gonum v0.8.2
	gorgonia.org/tensor v0.0.0
	pgregory.net/rapid v1.3.0
)

require (
	github.com/apache/arrow/go/arrow v0.0.0-20201229220542-30ce2eb5d4dc // indirect
	github.com/chewxy/hm v1.0.0 // indirect
	github.com/chewxy/math32 v1.0.8 // indirect
	github.com/gogo/protobuf v1.3.2 // indirect
	github.com/golang/protobuf v1.4.3 // indirect
	github.com/google/flatbuffers v1.12.0 // indirect
	github.com/pkg/errors v0.9.1 // indirect
	github.com/xtgo/set v1.0.0 // indirect
	go4.org/unsafe/assume-no-moving-gc v0.0.0-20230525183740-e7c30c78aeb2 // indirect
	golang.org/x/xerrors v0.0.0-20200804184101-5ec99f83aff1 // indirect
	google.golang.org/protobuf v1.25.0 // indirect
	gorgonia.org/vecf32 v0.9.0 // indirect
	gorgonia.org/vecf64 v0.9.0 // indirect
)

replace gorgonia.org/tensor => /repo
