package props

import (
	"fmt"
	"testing"

	"gorgonia.org/tensor"
	"pgregory.net/rapid"
)

// C13 — shape algebra agrees with execution.

type C13Case struct {
	Kind    string  `json:"kind"` // slice | repeat | concat | T | reshape
	Shape   []int   `json:"shape"`
	L       Layout  `json:"layout"`
	Specs   []SpecJ `json:"specs,omitempty"`
	Axis    int     `json:"axis,omitempty"`
	Repeats []int   `json:"repeats,omitempty"`
	Others  [][]int `json:"others,omitempty"`
	Perm    []int   `json:"perm,omitempty"`
	Target  []int   `json:"target,omitempty"`
	// Strict: the exact comparison also inside the region of finding F70 (only its witness sets this)
	Strict bool `json:"strict,omitempty"`
}

func init() { register("C13.shape", func() Case { return &C13Case{} }) }

func (c *C13Case) NTKey() string {
	switch c.Kind {
	case "slice":
		ok := false
		for _, s := range c.Specs {
			if s.K == "rng" && (s.S > 1 || s.A > 0) {
				ok = true
			}
		}
		if !ok {
			return ""
		}
	case "repeat":
		if len(c.Repeats) < 2 {
			return ""
		}
	case "concat":
		if len(c.Others) < 2 {
			return ""
		}
	case "T":
		if isIdentity(c.Perm) || eqInts(c.Perm, revPerm(len(c.Perm))) {
			return ""
		}
	case "reshape":
		if len(c.Target) == len(c.Shape) {
			return ""
		}
	}
	return fmt.Sprintf("%s|%v|%v|%v|%d|%v|%v|%v|%v", c.Kind, c.Shape, c.L, c.Specs, c.Axis, c.Repeats, c.Others, c.Perm, c.Target)
}

func dropOnes(s []int) []int {
	out := []int{}
	for _, d := range s {
		if d != 1 {
			out = append(out, d)
		}
	}
	return out
}

// sameUpToOnes: equal after removing length-one axes (the droppable-axis rule).
func sameUpToOnes(a, b []int) bool { return eqInts(dropOnes(a), dropOnes(b)) }

// inF3: a stepped range whose clamped extent is not a multiple of the step
// (the shape calculator floors, execution rounds up except on the leading axis).
func inF3(shape []int, specs []SpecJ) bool {
	for i, s := range specs {
		if i >= len(shape) || s.K != "rng" || s.S <= 1 {
			continue
		}
		end := s.B
		if end > shape[i] {
			end = shape[i]
		}
		if end > s.A && (end-s.A)%s.S != 0 {
			return true
		}
	}
	return false
}

func (c *C13Case) Run() string {
	d := dtInt16
	arr := seqArr(d, c.Shape, 0)
	b, err := Build(arr, c.L, nil)
	if err != nil {
		return inconclusive
	}
	t := b.T
	desc := fmt.Sprintf("%s on shape %v layout %v", c.Kind, c.Shape, c.L)
	switch c.Kind {
	case "slice":
		sl := make([]tensor.Slice, len(c.Specs))
		for i, s := range c.Specs {
			sl[i] = s.lib("RS")
		}
		var cs tensor.Shape
		var cerr, xerr error
		var v tensor.View
		if p := try(func() { cs, cerr = tensor.Shape(cloneInts(c.Shape)).S(sl...) }); p != "" {
			return fmt.Sprintf("%s: Shape.S(%v) panicked: %s", desc, c.Specs, p)
		}
		if p := try(func() { v, xerr = t.Slice(sl...) }); p != "" {
			return fmt.Sprintf("%s: Slice(%v) panicked: %s", desc, c.Specs, p)
		}
		if (cerr == nil) != (xerr == nil) {
			return fmt.Sprintf("%s: Shape.S(%v) error=%v but Slice error=%v", desc, c.Specs, cerr, xerr)
		}
		// "predict exactly": rank and every dimension. One region is a recorded finding (F70): a result of
		// one element, which slicing delivers as a scalar () while the calculator keeps length-one axes
		inF70 := cerr == nil && len(v.Shape()) == 0 && prod([]int(cs)) == 1 && len(cs) > 0
		if inF70 && !c.Strict {
			rec.Class("excluded-late:F70")
		}
		if cerr == nil && !eqInts([]int(cs), []int(v.Shape())) && !(inF70 && !c.Strict) {
			return fmt.Sprintf("%s: Shape.S(%v) predicts %v, Slice produces %v", desc, c.Specs, cs, v.Shape())
		}
		if xerr == nil {
			if m := metaInvariant(v.(*tensor.Dense)); m != "" {
				return desc + ": " + m
			}
		}
	case "repeat":
		axis := c.Axis
		if axis == -1 {
			axis = tensor.AllAxes
		}
		var cs tensor.Shape
		var cerr, xerr error
		var r tensor.Tensor
		if p := try(func() { cs, _, _, cerr = tensor.Shape(cloneInts(c.Shape)).Repeat(axis, cloneInts(c.Repeats)...) }); p != "" {
			return fmt.Sprintf("%s: Shape.Repeat(%d,%v) panicked: %s", desc, c.Axis, c.Repeats, p)
		}
		if p := try(func() { r, xerr = t.Repeat(axis, cloneInts(c.Repeats)...) }); p != "" {
			return fmt.Sprintf("%s: Repeat(%d,%v) panicked: %s", desc, c.Axis, c.Repeats, p)
		}
		if (cerr == nil) != (xerr == nil) {
			return fmt.Sprintf("%s: Shape.Repeat(%d,%v) error=%v but Repeat error=%v", desc, c.Axis, c.Repeats, cerr, xerr)
		}
		if cerr == nil && !eqInts([]int(cs), []int(r.Shape())) {
			return fmt.Sprintf("%s: Shape.Repeat(%d,%v) predicts %v, Repeat produces %v", desc, c.Axis, c.Repeats, cs, r.Shape())
		}
		if want, ok := repeatModel(arr, c.Axis, c.Repeats); ok && cerr == nil && !eqInts(want.Shape, []int(cs)) {
			return fmt.Sprintf("%s: Shape.Repeat(%d,%v) predicts %v, the reference says %v", desc, c.Axis, c.Repeats, cs, want.Shape)
		}
	case "concat":
		var ss []tensor.Shape
		var ts []*tensor.Dense
		for i, o := range c.Others {
			ss = append(ss, tensor.Shape(cloneInts(o)))
			ob, err := Build(seqArr(d, o, int64(10*(i+1))), Layout{Root: "rm"}, nil)
			if err != nil {
				return inconclusive
			}
			ts = append(ts, ob.T)
		}
		var cs tensor.Shape
		var cerr, xerr error
		var r *tensor.Dense
		if p := try(func() { cs, cerr = tensor.Shape(cloneInts(c.Shape)).Concat(c.Axis, ss...) }); p != "" {
			return fmt.Sprintf("%s: Shape.Concat(%d,%v) panicked: %s", desc, c.Axis, c.Others, p)
		}
		if p := try(func() { r, xerr = t.Concat(c.Axis, ts...) }); p != "" {
			return fmt.Sprintf("%s: Concat(%d,%v) panicked: %s", desc, c.Axis, c.Others, p)
		}
		if (cerr == nil) != (xerr == nil) {
			return fmt.Sprintf("%s: Shape.Concat(%d,%v) error=%v but Concat error=%v", desc, c.Axis, c.Others, cerr, xerr)
		}
		if cerr == nil && !eqInts([]int(cs), []int(r.Shape())) {
			return fmt.Sprintf("%s: Shape.Concat(%d,%v) predicts %v, Concat produces %v", desc, c.Axis, c.Others, cs, r.Shape())
		}
	case "T":
		var ap tensor.AP
		var cerr, xerr error
		var r *tensor.Dense
		if p := try(func() { ap, _, cerr = t.Info().T(cloneIntsNN(c.Perm)...) }); p != "" {
			return fmt.Sprintf("%s: AP.T(%v) panicked: %s", desc, c.Perm, p)
		}
		if _, noop := cerr.(tensor.NoOpError); noop {
			cerr = nil
		}
		if p := try(func() { r, xerr = t.SafeT(cloneIntsNN(c.Perm)...) }); p != "" {
			return fmt.Sprintf("%s: SafeT(%v) panicked: %s", desc, c.Perm, p)
		}
		if (cerr == nil) != (xerr == nil) {
			return fmt.Sprintf("%s: AP.T(%v) error=%v but SafeT error=%v", desc, c.Perm, cerr, xerr)
		}
		if !isPermutation(c.Perm, len(c.Shape)) && nonUnit(c.Shape) < 2 {
			rec.Class("T:not-a-permutation(vector-like: nothing asserted)")
			return ""
		}
		if !isPermutation(c.Perm, len(c.Shape)) {
			// axes that are no permutation of the tensor's axes are refused by both
			rec.Class("T:not-a-permutation")
			if cerr == nil {
				return fmt.Sprintf("%s: the axes %v are no permutation of %d axes, but AP.T and SafeT accept them (result shape %v)", desc, c.Perm, len(c.Shape), r.Shape())
			}
			return ""
		}
		if cerr == nil {
			if !eqInts([]int(ap.Shape()), []int(r.Shape())) {
				return fmt.Sprintf("%s: AP.T(%v) predicts %v, SafeT produces %v", desc, c.Perm, ap.Shape(), r.Shape())
			}
			want := make([]int, len(c.Perm))
			for i, ax := range c.Perm {
				want[i] = c.Shape[ax]
			}
			if prod(c.Shape) > 1 && !eqInts(want, []int(r.Shape())) {
				return fmt.Sprintf("%s: T(%v) produces shape %v, expected %v", desc, c.Perm, r.Shape(), want)
			}
			if m := metaInvariant(r); m != "" {
				return desc + ": " + m
			}
		}
	case "reshape":
		// the flat sequence in the tensor's own data order
		seq := func(a Arr, cm bool) []interface{} {
			if !cm {
				return a.E
			}
			out := make([]interface{}, len(a.E))
			for k, cc := range coordsOf(a.Shape) {
				out[flatIdxCM(a.Shape, cc)] = a.E[k]
			}
			return out
		}
		cm := t.DataOrder().IsColMajor()
		before := seq(arr, cm)
		var rerr error
		if p := try(func() { rerr = t.Reshape(cloneInts(c.Target)...) }); p != "" {
			return fmt.Sprintf("%s: Reshape(%v) panicked: %s", desc, c.Target, p)
		}
		sizeOK := prod(c.Target) == prod(c.Shape)
		if !sizeOK {
			if rerr == nil {
				return fmt.Sprintf("%s: Reshape(%v) changes the total size but succeeded", desc, c.Target)
			}
		}
		if rerr != nil {
			if sizeOK && c.L.IsContig() {
				return fmt.Sprintf("%s: Reshape(%v) refused a contiguous tensor: %v", desc, c.Target, rerr)
			}
			// refused: the tensor is unchanged
			if m := compareAt(t, arr, bitEqVal); m != "" {
				return fmt.Sprintf("%s: Reshape(%v) was refused (%v) but changed the tensor: %s", desc, c.Target, rerr, m)
			}
			if !b.Detached {
				if diff := b.FrameDiff(b.RootE); diff != "" {
					return fmt.Sprintf("%s: Reshape(%v) was refused (%v) but wrote to the storage: %s", desc, c.Target, rerr, diff)
				}
			}
			if m := derivedProbe(t, arr); m != "" {
				return fmt.Sprintf("%s: Reshape(%v) was refused (%v) but left the tensor in another state: %s", desc, c.Target, rerr, m)
			}
			rec.Class("reshape-refused")
			return ""
		}
		rec.Class("reshape-done")
		if !eqInts([]int(t.Shape()), c.Target) && !(len(c.Target) == 0 && t.Shape().IsScalar()) {
			return fmt.Sprintf("%s: Reshape(%v) left shape %v", desc, c.Target, t.Shape())
		}
		got := arrOf(t)
		after := seq(got, t.DataOrder().IsColMajor())
		if len(after) != len(before) {
			return fmt.Sprintf("%s: Reshape(%v) changed the number of elements", desc, c.Target)
		}
		for i := range before {
			if !bitEqVal(before[i], after[i]) {
				return fmt.Sprintf("%s: Reshape(%v) changed the flat element sequence: before %s, after %s", desc, c.Target, fmtVals(before), fmtVals(after))
			}
		}
		if m := metaInvariant(t); m != "" {
			return desc + ": after Reshape: " + m
		}
		// whatever the view did not cover is untouched
		if !b.Detached {
			inView := map[int]bool{}
			for _, j := range b.Idx {
				inView[j] = true
			}
			for j, v := range b.RootNow() {
				if !inView[j] && !bitEqVal(v, b.RootE[j]) {
					return fmt.Sprintf("%s: Reshape(%v) changed element %d of the parent, which lies outside the reshaped view, from %s to %s", desc, c.Target, j, fmtVal(b.RootE[j]), fmtVal(v))
				}
			}
		}
		// the reshaped tensor is a tensor like any other: observers that trust its flags agree with it, and
		// a transposition of it is the transposition the shape calculator predicts (nothing stale is pending)
		if m := derivedProbe(t, got); m != "" {
			return fmt.Sprintf("%s: after Reshape(%v): %s", desc, c.Target, m)
		}
		if len(c.Target) >= 2 && prod(c.Target) > 1 && !cm {
			p := revPerm(len(c.Target))
			if perr := t.T(p...); perr == nil {
				wantT := got.Permute(p)
				if m := compareAt(t, wantT, bitEqVal); m != "" {
					return fmt.Sprintf("%s: after Reshape(%v), T(%v): %s", desc, c.Target, p, m)
				}
				t.UT()
				if m := compareAt(t, got, bitEqVal); m != "" {
					return fmt.Sprintf("%s: after Reshape(%v), T(%v) and UT(): %s", desc, c.Target, p, m)
				}
			}
		}
	}
	return ""
}

// factorisations lists every ordered factorisation of n into 1..maxLen factors (each >= 1, bounded count).
func factorisations(n, maxLen int) [][]int {
	var out [][]int
	var rec func(rem int, cur []int)
	rec = func(rem int, cur []int) {
		if len(cur) > 0 && rem == 1 {
			out = append(out, cloneIntsNN(cur))
		}
		if len(cur) == maxLen {
			return
		}
		for f := 1; f <= rem; f++ {
			if rem%f == 0 && (f > 1 || len(cur) < 2) {
				rec(rem/f, append(cur, f))
			}
		}
	}
	rec(n, nil)
	return out
}

func TestC13(t *testing.T) {
	for _, lk := range []string{"contig", "lazyT", "cmraw", "sliced"} {
		lk := lk
		cell(t, "C13", "C13.shape", "slice/"+lk, nCases(150, 5000), func(rt *rapid.T) Case {
			shape := genShape(rt, 1, 4, 5, "s")
			n := rapid.IntRange(0, len(shape)+1).Draw(rt, "n")
			specs := make([]SpecJ, n)
			for i := range specs {
				dim := 1
				if i < len(shape) {
					dim = shape[i]
				}
				specs[i] = genSpec(rt, dim, fmt.Sprintf("sp%d", i))
				if specs[i].K == "rng" && specs[i].A == specs[i].B {
					specs[i].B++
				}
			}
			if inF3(shape, specs) {
				rec.Class("excluded:F3")
				for i := range specs {
					if specs[i].K == "rng" && specs[i].S > 1 {
						specs[i].S = 1
					}
				}
			}
			// now and then a negative step: whatever the slicing does with it (this check has no model of its
			// own), the shape calculator has to predict the same
			if len(specs) > 0 && rapid.IntRange(0, 7).Draw(rt, "negstep") == 0 {
				i := rapid.IntRange(0, len(specs)-1).Draw(rt, "negwhich")
				if specs[i].K == "rng" {
					specs[i].S = -rapid.IntRange(1, 2).Draw(rt, "neg")
				}
			}
			return &C13Case{Kind: "slice", Shape: shape, L: genLayoutKind(rt, lk, len(shape), "l"), Specs: specs}
		})
	}
	cell(t, "C13", "C13.shape", "repeat", nCases(300, 8000), func(rt *rapid.T) Case {
		shape := genShape(rt, 1, 4, 4, "s")
		c := &C13Case{Kind: "repeat", Shape: shape, L: Layout{Root: "rm"}}
		c.Axis = rapid.IntRange(-1, len(shape)).Draw(rt, "axis") // -1: all axes; len: invalid
		n := prod(shape)
		if c.Axis >= 0 && c.Axis < len(shape) {
			n = shape[c.Axis]
		}
		switch rapid.IntRange(0, 3).Draw(rt, "repclass") {
		case 0:
			c.Repeats = []int{rapid.IntRange(1, 3).Draw(rt, "r")}
		case 1:
			c.Repeats = make([]int, n)
			for i := range c.Repeats {
				c.Repeats[i] = rapid.IntRange(0, 3).Draw(rt, "r")
			}
			c.Repeats[0]++
		default:
			c.Repeats = make([]int, rapid.IntRange(2, n+2).Draw(rt, "nr")) // mostly the wrong number
			for i := range c.Repeats {
				c.Repeats[i] = rapid.IntRange(1, 2).Draw(rt, "r")
			}
		}
		if inF32(&C10Case{Op: "Repeat", Ops: []Opnd{{Shape: shape}}, Axis: c.Axis, Repeats: c.Repeats}) {
			rec.Class("excluded:F32")
			c.Shape = append([]int{2}, shape[1:]...)
			if c.Axis == 0 && len(c.Repeats) > 1 {
				c.Repeats = []int{1, 2}
			}
		}
		return c
	})
	cell(t, "C13", "C13.shape", "concat", nCases(300, 8000), func(rt *rapid.T) Case {
		shape := genShape(rt, 1, 4, 3, "s")
		c := &C13Case{Kind: "concat", Shape: shape, L: Layout{Root: "rm"}}
		c.Axis = rapid.IntRange(0, len(shape)).Draw(rt, "axis") // len: invalid
		no := rapid.IntRange(1, 3).Draw(rt, "no")
		for i := 0; i < no; i++ {
			o := cloneInts(shape)
			if c.Axis < len(o) {
				o[c.Axis] = rapid.IntRange(1, 3).Draw(rt, "len")
			}
			switch rapid.IntRange(0, 7).Draw(rt, "mut") {
			case 0:
				o = append(o, 2)
			case 1:
				j := rapid.IntRange(0, len(o)-1).Draw(rt, "j")
				o[j]++
			case 2:
				// the same dimensions in another order (same rank, same number of elements per slab)
				if len(o) >= 2 {
					i, j := rapid.IntRange(0, len(o)-1).Draw(rt, "pi"), rapid.IntRange(0, len(o)-1).Draw(rt, "pj")
					o[i], o[j] = o[j], o[i]
				}
			case 3:
				// one dimension doubled, another halved
				for i := range o {
					if o[i]%2 == 0 && i != c.Axis {
						j := (i + 1) % len(o)
						if j != c.Axis && j != i {
							o[i], o[j] = o[i]/2, o[j]*2
						}
						break
					}
				}
			}
			c.Others = append(c.Others, o)
		}
		return c
	})
	for _, lk := range []string{"contig", "sliced", "cmraw"} {
		lk := lk
		cell(t, "C13", "C13.shape", "T/"+lk, nCases(150, 4000), func(rt *rapid.T) Case {
			shape := genShape(rt, 0, 5, 3, "s")
			c := &C13Case{Kind: "T", Shape: shape, L: genLayoutKind(rt, lk, len(shape), "l"), Perm: genPerm(rt, len(shape), "perm")}
			if len(shape) >= 2 && rapid.IntRange(0, 5).Draw(rt, "badperm") == 0 {
				// not a permutation: an axis twice, an axis that does not exist, one axis too few or too many
				i := rapid.IntRange(0, len(shape)-1).Draw(rt, "bi")
				switch rapid.IntRange(0, 3).Draw(rt, "bk") {
				case 0:
					c.Perm[i] = c.Perm[(i+1)%len(shape)]
				case 1:
					c.Perm[i] = len(shape) + rapid.IntRange(0, 1).Draw(rt, "bo")
				case 2:
					c.Perm = c.Perm[:len(c.Perm)-1]
				default:
					c.Perm = append(c.Perm, len(shape))
				}
			}
			return c
		})
	}
	for _, lk := range []string{"contig", "lazyT", "sliced", "leadsliced", "stepsliced", "materialized", "clonedview", "cmraw", "cmconv", "Tsliced", "slicedT", "picked", "pickslice", "physT"} {
		lk := lk
		cell(t, "C13", "C13.reshapeall", "reshape/"+lk, nCases(40, 800), func(rt *rapid.T) Case {
			shape := genShape(rt, 0, 4, 4, "s")
			for prod(shape) > 36 {
				shape = shape[1:]
			}
			return &C13Reshape{Shape: shape, L: genLayoutKind(rt, lk, len(shape), "l")}
		})
	}
	c13Census(t)
}

// C13Reshape reshapes one tensor to every ordered factorisation of its size (and two non-factorisations).
type C13Reshape struct {
	Shape []int  `json:"shape"`
	L     Layout `json:"layout"`
}

func init() { register("C13.reshapeall", func() Case { return &C13Reshape{} }) }

func (c *C13Reshape) NTKey() string { return fmt.Sprintf("%v|%v", c.Shape, c.L) }

func (c *C13Reshape) Run() string {
	n := prod(c.Shape)
	targets := factorisations(n, 4)
	targets = append(targets, []int{n + 1}, []int{n, 2})
	if n == 1 {
		targets = append(targets, []int{})
	}
	for _, tg := range targets {
		resetLib()
		rec.Eval()
		sub := &C13Case{Kind: "reshape", Shape: c.Shape, L: c.L, Target: tg}
		if msg := sub.Run(); msg != "" && msg != inconclusive {
			return msg
		}
		if k := sub.NTKey(); k != "" {
			rec.NonTrivial("reshape|" + k)
		}
	}
	rec.ClassN("reshape-targets", len(targets))
	return ""
}

// census: every tensor the other checks compare against their model is also run
// through the metadata invariant.
var censusOn bool
var censusFail string
var censusCount int

func censusObserve(t tensor.Tensor) {
	if !censusOn || censusFail != "" {
		return
	}
	d, ok := t.(*tensor.Dense)
	if !ok || d == nil {
		return
	}
	censusCount++
	if m := metaInvariant(d); m != "" {
		censusFail = m
	}
}

type C13Census struct {
	Sub     string `json:"sub"`
	SubKind string `json:"subkind"`
	inner   Case
}

func c13Census(t *testing.T) {
	gens := map[string]func(rt *rapid.T) (string, Case){
		"C02": func(rt *rapid.T) (string, Case) {
			shape := genShape(rt, 1, 4, 4, "s")
			return "C02.slice", &C02Case{DT: "int16", Shape: shape, L: genLayoutKind(rt, rapid.SampledFrom(c02Layouts).Draw(rt, "lk"), len(shape), "l"), Prog: genC02Prog(rt, shape, 2, -1)}
		},
		"C03": func(rt *rapid.T) (string, Case) {
			shape := genC03Shape(rt)
			return "C03.transpose", &C03Case{DT: "int16", Shape: shape, L: Layout{Root: "rm"}, Prog: genC03Prog(rt, shape, 3, "")}
		},
		"C06": func(rt *rapid.T) (string, Case) {
			return "EW", genArithCase(rt, "C13", rapid.SampledFrom([]string{"Add", "Mul", "Sub"}).Draw(rt, "op"), rapid.SampledFrom([]DT{dtInt32, dtF64}).Draw(rt, "dt"), rapid.SampledFrom([]string{"TT", "TS"}).Draw(rt, "form"), "pkg", "safe", c06LayoutKinds)
		},
		"C08": func(rt *rapid.T) (string, Case) {
			shape := genShapeMin2(rt, 1, 4, 3, "s")
			return "C08.reduce", &C08Case{Op: "Sum", DT: "int32", A: genOpnd(rt, shape, rapid.SampledFrom(c08Layouts).Draw(rt, "lk"), -3, 5, 0, "a"), Axes: genAxesSubset(rt, len(shape)), Via: "method"}
		},
		"C09": func(rt *rapid.T) (string, Case) {
			return "C09.linalg", avoidC09Regions(genC09(rt, rapid.SampledFrom([]string{"MatMul", "MatVecMul", "Outer", "TensorMul", "Dot"}).Draw(rt, "op"), dtF64, "safe", c09Layouts))
		},
		"C10": func(rt *rapid.T) (string, Case) {
			return "C10.assemble", avoidC10Regions(genC10(rt, rapid.SampledFrom([]string{"Concat", "Stack", "Repeat"}).Draw(rt, "op"), dtInt16, false))
		},
	}
	for _, name := range []string{"C02", "C03", "C06", "C08", "C09", "C10"} {
		name := name
		gen := gens[name]
		cell(t, "C13", "C13.census", "census/"+name, nCases(60, 1500), func(rt *rapid.T) Case {
			kind, inner := gen(rt)
			return &censusCase{Kind: kind, Inner: inner}
		})
	}
}

// censusCase wraps a case of another family and evaluates the metadata
// invariant on every tensor that case produces.
type censusCase struct {
	Kind  string `json:"inner_kind"`
	Inner Case   `json:"inner"`
}

func init() { register("C13.census", func() Case { return &censusReplay{} }) }

// censusReplay decodes a saved census case (the inner case is decoded through the registry).
type censusReplay struct {
	Kind  string  `json:"inner_kind"`
	Inner jsonRaw `json:"inner"`
	inner Case
}

type jsonRaw []byte

func (j *jsonRaw) UnmarshalJSON(b []byte) error { *j = append((*j)[:0], b...); return nil }
func (j jsonRaw) MarshalJSON() ([]byte, error)  { return j, nil }

func (c *censusReplay) Run() string {
	mk, ok := registry[c.Kind]
	if !ok {
		return "HARNESS: unknown inner kind " + c.Kind
	}
	inner := mk()
	if err := jsonUnmarshal(c.Inner, inner); err != nil {
		return "HARNESS: " + err.Error()
	}
	return (&censusCase{Kind: c.Kind, Inner: inner}).Run()
}

func (c *censusCase) NTKey() string {
	if m, ok := c.Inner.(Meta); ok {
		if k := m.NTKey(); k != "" {
			return c.Kind + "|" + k
		}
	}
	return ""
}

func (c *censusCase) Run() string {
	censusOn, censusFail, censusCount = true, "", 0
	defer func() { censusOn = false }()
	msg := c.Inner.Run()
	rec.ClassN("tensors-inspected", censusCount)
	if censusFail != "" {
		return "metadata invariant broken on a tensor produced by a " + c.Kind + " case: " + censusFail
	}
	if msg != "" && msg != inconclusive {
		// the inner property failing is that property's business; the census only looks at metadata
		rec.Class("inner-failed")
	}
	return ""
}

// isPermutation: p lists each of 0..n-1 exactly once.
func isPermutation(p []int, n int) bool {
	if len(p) != n {
		return false
	}
	seen := make([]bool, n)
	for _, a := range p {
		if a < 0 || a >= n || seen[a] {
			return false
		}
		seen[a] = true
	}
	return true
}
