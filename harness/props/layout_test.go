package props

import (
	"fmt"
	"reflect"

	"gorgonia.org/tensor"
	"pgregory.net/rapid"
)

// RS is the harness's own implementation of tensor.Slice, so that every
// (start,end,step) triple is expressible.
type RS struct{ S, E, St int }

func (r RS) Start() int { return r.S }
func (r RS) End() int   { return r.E }
func (r RS) Step() int  { return r.St }

// LStep is one construction step of a layout recipe.
type LStep struct {
	Op   string `json:"op"`             // "T", "slice", "pick"
	Perm []int  `json:"perm,omitempty"` // T: result axis i is source axis Perm[i]
	Lo   []int  `json:"lo,omitempty"`   // slice: leading padding per axis (of the result)
	Hi   []int  `json:"hi,omitempty"`   // slice: trailing padding per axis
	Step []int  `json:"step,omitempty"` // slice: step per axis (>=1)
	Axis int    `json:"axis,omitempty"` // pick: position of the extra source axis
	Idx  int    `json:"idx,omitempty"`  // pick: index chosen on it
	Size int    `json:"size,omitempty"` // pick: its length
	// pick through a stepped range [Idx : Idx+W : PStep] with PStep >= W > 1: still exactly one
	// index, but the range the library sees is W wide (W == 0: the plain single index)
	W     int `json:"w,omitempty"`
	PStep int `json:"pstep,omitempty"`
	// slice: axes that are taken whole are passed as nil (true) or as the explicit range [0:n] (false);
	// the library flags the resulting view differently
	Nil bool `json:"nil,omitempty"`
}

// Layout is a recipe that realises a logical array as a *tensor.Dense.
type Layout struct {
	Root  string  `json:"root"`            // "rm", "cmraw", "cmconv"
	Steps []LStep `json:"steps,omitempty"` // applied to the root in order
	Final string  `json:"final,omitempty"` // "", "mat" (Materialize), "clone" (Clone)
	Opt   int     `json:"opt,omitempty"`   // order in which the construction options are given (0, 1, 2)
}

func (l Layout) String() string {
	s := l.Root
	if l.Opt != 0 {
		s += fmt.Sprintf("(opts%d)", l.Opt)
	}
	for _, st := range l.Steps {
		switch st.Op {
		case "T":
			s += fmt.Sprintf(".T%v", st.Perm)
		case "slice":
			s += fmt.Sprintf(".slice(lo%v hi%v step%v)", st.Lo, st.Hi, st.Step)
			if st.Nil {
				s += "[whole axes as nil]"
			}
		case "spick":
			s += fmt.Sprintf(".slice+pick(axis%d idx%d of%d; lo%v hi%v step%v)", st.Axis, st.Idx, st.Size, st.Lo, st.Hi, st.Step)
		case "pick":
			s += fmt.Sprintf(".pick(axis%d idx%d of%d)", st.Axis, st.Idx, st.Size)
			if st.W > 1 {
				s += fmt.Sprintf("[as %d:%d:%d]", st.Idx, st.Idx+st.W, st.PStep)
			}
		}
	}
	if l.Final != "" {
		s += "." + l.Final
	}
	return s
}

// Kind is a coarse class name used for evidence histograms.
func (l Layout) Kind() string {
	k := l.Root
	for _, st := range l.Steps {
		switch st.Op {
		case "T":
			k += "+T"
		case "spick":
			k += "+slicepick"
		case "pick":
			k += "+pick"
			if st.W > 1 {
				k += "wide"
			}
		case "slice":
			stepped := false
			for _, s := range st.Step {
				if s > 1 {
					stepped = true
				}
			}
			if stepped {
				k += "+stepslice"
			} else {
				k += "+slice"
			}
		}
	}
	if l.Final != "" {
		k += "+" + l.Final
	}
	return k
}

func (l Layout) IsContig() bool {
	return len(l.Steps) == 0 || l.Final == "mat" || l.Final == "phys" || l.Final == "pbdec"
}
func (l Layout) IsCM() bool { return l.Root != "rm" }

// onlyTransposed: a whole tensor with nothing but lazy transpositions pending (its offsets are a
// permutation of 0..n-1).
func (l Layout) onlyTransposed() bool {
	if l.Final != "" || len(l.Steps) == 0 {
		return false
	}
	for _, st := range l.Steps {
		if st.Op != "T" {
			return false
		}
	}
	return true
}

// Built is a realised layout.
type Built struct {
	T        *tensor.Dense
	L        Layout
	Root     *tensor.Dense // owner of the storage T was derived from (== T when there are no steps)
	RootShp  []int
	rawData  interface{}   // the Go slice backing the root
	rawPos   []int         // raw position of root logical index j
	RootE    []interface{} // model: root logical elements as constructed (sentinels + payload)
	Idx      []int         // for each logical element k of T: root logical index (nil when detached)
	Detached bool          // Final != "": T no longer shares storage with Root
}

// LayoutErr reports that a recipe could not be realised with the intended
// content: the construction operations themselves (New, Slice, T, At) misbehave.
type LayoutErr struct{ Msg string }

func (e *LayoutErr) Error() string { return "layout: " + e.Msg }

func sentinel(d DT, j int) interface{} {
	if d.Name == "bool" {
		return j%3 == 0
	}
	return conv(d, int64(77+j%150))
}

// preShape computes the shape a step must be applied to in order to yield post.
func (st LStep) preShape(post []int) []int {
	switch st.Op {
	case "T":
		pre := make([]int, len(post))
		for j, ax := range st.Perm {
			pre[ax] = post[j]
		}
		return pre
	case "slice":
		pre := make([]int, len(post))
		for j := range post {
			if post[j] == 1 {
				pre[j] = 1 // length-one axes always get a nil range (the library drops explicitly ranged ones)
				continue
			}
			pre[j] = st.Lo[j] + post[j]*st.Step[j] + st.Hi[j]
		}
		return pre
	case "pick":
		pre := make([]int, 0, len(post)+1)
		pre = append(pre, post[:st.Axis]...)
		pre = append(pre, st.Size)
		pre = append(pre, post[st.Axis:]...)
		return pre
	case "spick":
		// one Slice call: a single index on one axis together with ranges on the others
		return st.asPick().preShape(st.asSlice().preShape(post))
	}
	panic("HARNESS: unknown layout step " + st.Op)
}

func (st LStep) asPick() LStep  { return LStep{Op: "pick", Axis: st.Axis, Idx: st.Idx, Size: st.Size} }
func (st LStep) asSlice() LStep { return LStep{Op: "slice", Lo: st.Lo, Hi: st.Hi, Step: st.Step} }

// applyIdx applies a step to the model index array.
func (st LStep) applyIdx(a Arr) Arr {
	switch st.Op {
	case "T":
		return a.Permute(st.Perm)
	case "slice":
		post := make([]int, len(a.Shape))
		for j, d := range a.Shape {
			if d == 1 {
				post[j] = 1
			} else {
				post[j] = (d - st.Lo[j] - st.Hi[j]) / st.Step[j]
			}
		}
		r := Arr{DT: a.DT, Shape: post, E: make([]interface{}, prod(post))}
		src := make([]int, len(post))
		for k, c := range coordsOf(post) {
			for j := range c {
				if a.Shape[j] == 1 {
					src[j] = 0
				} else {
					src[j] = st.Lo[j] + c[j]*st.Step[j]
				}
			}
			r.E[k] = a.At(src)
		}
		return r
	case "spick":
		return st.asSlice().applyIdx(st.asPick().applyIdx(a))
	case "pick":
		post := append(append([]int{}, a.Shape[:st.Axis]...), a.Shape[st.Axis+1:]...)
		r := Arr{DT: a.DT, Shape: post, E: make([]interface{}, prod(post))}
		src := make([]int, len(a.Shape))
		for k, c := range coordsOf(post) {
			copy(src, c[:st.Axis])
			src[st.Axis] = st.Idx
			copy(src[st.Axis+1:], c[st.Axis:])
			r.E[k] = a.At(src)
		}
		return r
	}
	panic("HARNESS: unknown layout step " + st.Op)
}

// applyLib applies a step to the real tensor.
func (st LStep) applyLib(t *tensor.Dense) (*tensor.Dense, error) {
	switch st.Op {
	case "T":
		if err := t.T(st.Perm...); err != nil {
			return nil, err
		}
		return t, nil
	case "slice":
		sh := t.Shape()
		sl := make([]tensor.Slice, len(sh))
		for j, d := range sh {
			if d == 1 {
				sl[j] = nil
				continue
			}
			if st.Nil && st.Lo[j] == 0 && st.Hi[j] == 0 && st.Step[j] == 1 {
				sl[j] = nil
				continue
			}
			post := (d - st.Lo[j] - st.Hi[j]) / st.Step[j]
			sl[j] = RS{st.Lo[j], st.Lo[j] + post*st.Step[j], st.Step[j]}
		}
		v, err := t.Slice(sl...)
		if err != nil {
			return nil, err
		}
		return v.(*tensor.Dense), nil
	case "spick":
		sh := t.Shape()
		sl := make([]tensor.Slice, len(sh))
		for i, d := range sh {
			j := i // axis of the result
			switch {
			case i == st.Axis:
				sl[i] = RS{st.Idx, st.Idx + 1, 0}
				continue
			case i > st.Axis:
				j = i - 1
			}
			if d == 1 {
				continue
			}
			post := (d - st.Lo[j] - st.Hi[j]) / st.Step[j]
			sl[i] = RS{st.Lo[j], st.Lo[j] + post*st.Step[j], st.Step[j]}
		}
		v, err := t.Slice(sl...)
		if err != nil {
			return nil, err
		}
		return v.(*tensor.Dense), nil
	case "pick":
		sl := make([]tensor.Slice, st.Axis+1)
		sl[st.Axis] = RS{st.Idx, st.Idx + 1, 0}
		if st.W > 1 {
			sl[st.Axis] = RS{st.Idx, st.Idx + st.W, st.PStep}
		}
		v, err := t.Slice(sl...)
		if err != nil {
			return nil, err
		}
		return v.(*tensor.Dense), nil
	}
	panic("HARNESS: unknown layout step " + st.Op)
}

// normalise drops steps that the construction rules forbid (size-one arrays
// are never built through views: the library turns such views into scalars).
func (l Layout) normalise(shape []int) Layout {
	if prod(shape) == 1 || len(shape) == 0 {
		return Layout{Root: l.Root, Opt: l.Opt}
	}
	return l
}

// Build realises arr with layout l. mask may be nil; when given it is the
// logical row-major mask of arr and is only supported for step-free layouts.
func Build(arr Arr, l Layout, mask []bool) (b *Built, err error) {
	l = l.normalise(arr.Shape)
	defer func() {
		if r := recover(); r != nil {
			if s, ok := r.(string); ok && len(s) >= 8 && s[:8] == "HARNESS:" {
				panic(r)
			}
			err = &LayoutErr{fmt.Sprintf("panic while building %v for shape %v: %v", l, arr.Shape, r)}
		}
	}()
	d := arr.DT
	shapes := make([][]int, len(l.Steps)+1)
	shapes[len(l.Steps)] = arr.Shape
	for i := len(l.Steps) - 1; i >= 0; i-- {
		shapes[i] = l.Steps[i].preShape(shapes[i+1])
	}
	rootShape := shapes[0]
	n := prod(rootShape)
	idx := Arr{Shape: cloneInts(rootShape), E: make([]interface{}, n)}
	for j := range idx.E {
		idx.E[j] = j
	}
	for _, st := range l.Steps {
		idx = st.applyIdx(idx)
	}
	if !eqInts(idx.Shape, arr.Shape) {
		panic(fmt.Sprintf("HARNESS: layout %v yields shape %v, want %v", l, idx.Shape, arr.Shape))
	}
	b = &Built{L: l, RootShp: rootShape}
	b.RootE = make([]interface{}, n)
	for j := range b.RootE {
		b.RootE[j] = sentinel(d, j)
	}
	b.Idx = make([]int, len(arr.E))
	var rootMask []bool
	if mask != nil {
		rootMask = make([]bool, n)
	}
	if mask != nil {
		// the parent's elements outside the view are masked here and there as well: whatever walks the
		// view's storage window instead of the view meets them
		for j := range rootMask {
			rootMask[j] = j%3 != 1
		}
	}
	for k := range arr.E {
		j := idx.E[k].(int)
		b.Idx[k] = j
		b.RootE[j] = arr.E[k]
		if mask != nil {
			rootMask[j] = mask[k]
		}
	}
	// root tensor
	b.rawPos = make([]int, n)
	rootCoords := coordsOf(rootShape)
	var root *tensor.Dense
	if len(rootShape) == 0 {
		if mask != nil {
			root = tensor.New(tensor.FromScalar(b.RootE[0], rootMask))
		} else {
			root = tensor.New(tensor.FromScalar(b.RootE[0]))
		}
		b.rawPos[0] = 0
	} else {
		switch l.Root {
		case "rm":
			raw := mkBacking(d, b.RootE)
			for j := range b.rawPos {
				b.rawPos[j] = j
			}
			if mask != nil {
				root = tensor.New(tensor.WithShape(rootShape...), tensor.WithBacking(raw, rootMask))
			} else if l.Opt%2 == 1 {
				root = tensor.New(tensor.WithBacking(raw), tensor.WithShape(rootShape...))
			} else {
				root = tensor.New(tensor.WithShape(rootShape...), tensor.WithBacking(raw))
			}
		case "cmraw":
			rawE := make([]interface{}, n)
			var rawMask []bool
			if mask != nil {
				rawMask = make([]bool, n)
			}
			for j, c := range rootCoords {
				p := flatIdxCM(rootShape, c)
				b.rawPos[j] = p
				rawE[p] = b.RootE[j]
				if mask != nil {
					rawMask[p] = rootMask[j]
				}
			}
			raw := mkBacking(d, rawE)
			if mask != nil {
				root = tensor.New(tensor.WithShape(rootShape...), tensor.WithBacking(raw, rawMask), tensor.AsFortran(nil))
			} else {
				// the options may come in any order
				switch l.Opt % 3 {
				case 1:
					root = tensor.New(tensor.AsFortran(nil), tensor.WithShape(rootShape...), tensor.WithBacking(raw))
				case 2:
					root = tensor.New(tensor.WithBacking(raw), tensor.AsFortran(nil), tensor.WithShape(rootShape...))
				default:
					root = tensor.New(tensor.WithShape(rootShape...), tensor.WithBacking(raw), tensor.AsFortran(nil))
				}
			}
		case "cmconv":
			raw := mkBacking(d, b.RootE)
			for j, c := range rootCoords {
				b.rawPos[j] = flatIdxCM(rootShape, c)
			}
			if mask != nil {
				root = tensor.New(tensor.WithShape(rootShape...), tensor.AsFortran(raw, rootMask))
			} else {
				root = tensor.New(tensor.WithShape(rootShape...), tensor.AsFortran(raw))
			}
		default:
			panic("HARNESS: unknown root " + l.Root)
		}
	}
	b.Root = root
	b.rawData = root.Data()
	t := root
	for i, st := range l.Steps {
		if i == 0 && st.Op == "T" {
			// keep the root handle untransposed: transpose a whole-tensor view instead
			// (not used: T on the root itself is the common user path). The root is
			// observed through its raw storage, so sharing the handle is fine.
		}
		var e error
		if t, e = st.applyLib(t); e != nil {
			return nil, &LayoutErr{fmt.Sprintf("step %d of %v on root shape %v: %v", i, l, rootShape, e)}
		}
	}
	switch l.Final {
	case "":
	case "phys":
		// a lazily transposed tensor whose data has then been moved physically: contiguous
		// again, but the data-order flags remember the transposition
		if err := t.Transpose(); err != nil {
			return nil, &LayoutErr{fmt.Sprintf("Transpose() of %v: %v", l, err)}
		}
		b.Detached = true // the storage has been rearranged: the root bookkeeping no longer applies
	case "mat":
		t = t.Materialize().(*tensor.Dense)
		b.Detached = true
	case "clone":
		t = t.Clone().(*tensor.Dense)
		b.Detached = true
	case "pbdec":
		// what a protobuf round trip delivers: a tensor filled in by a decoder, not by the constructor
		// (fields that the constructor sets, like the fallback engine, are still unset)
		enc, err := t.PBEncode()
		if err != nil {
			return nil, &LayoutErr{fmt.Sprintf("PBEncode of %v: %v", l, err)}
		}
		dec := new(tensor.Dense)
		if err := dec.PBDecode(enc); err != nil {
			return nil, &LayoutErr{fmt.Sprintf("PBDecode of %v: %v", l, err)}
		}
		t = dec
		b.Detached = true
	default:
		panic("HARNESS: unknown final " + l.Final)
	}
	b.T = t
	if !eqInts([]int(t.Shape()), arr.Shape) && !(len(arr.Shape) == 0 && t.Shape().IsScalar()) {
		return nil, &LayoutErr{fmt.Sprintf("%v on root %v gives shape %v, want %v", l, rootShape, t.Shape(), arr.Shape)}
	}
	// self-check: the tensor reads back as arr through At
	if e := compareAt(t, arr, bitEqVal); e != "" {
		return nil, &LayoutErr{fmt.Sprintf("%v on root %v does not read back: %s", l, rootShape, e)}
	}
	return b, nil
}

// RootNow reads the root's logical elements from its raw storage.
func (b *Built) RootNow() []interface{} {
	raw := backingVals(b.rawData)
	if len(b.RootShp) == 0 {
		raw = backingVals(b.Root.Data())
	}
	out := make([]interface{}, len(b.rawPos))
	for j, p := range b.rawPos {
		out[j] = raw[p]
	}
	return out
}

// FrameDiff compares the root storage with an expected root content; returns "" if equal.
func (b *Built) FrameDiff(want []interface{}) string {
	now := b.RootNow()
	for j := range want {
		if !bitEqVal(now[j], want[j]) {
			inside := false
			for _, x := range b.Idx {
				if x == j {
					inside = true
				}
			}
			return fmt.Sprintf("root element %d (coord %v of root shape %v, inside view: %v) is %s, expected %s", j, coordsOf(b.RootShp)[j], b.RootShp, inside, fmtVal(now[j]), fmtVal(want[j]))
		}
	}
	return ""
}

// ExpectRoot returns a copy of the constructed root content with the view's
// elements replaced by e (logical order of T).
func (b *Built) ExpectRoot(e []interface{}) []interface{} {
	w := append([]interface{}{}, b.RootE...)
	for k, j := range b.Idx {
		w[j] = e[k]
	}
	return w
}

// HasGaps reports whether the view omits a root element lying between its
// first and last storage slot.
// CoversRoot: the tensor is its whole root (no element of the root lies outside it). A destination like
// that may be re-laid-out by the library (a reuse tensor's pending transposition is dropped), so there
// is no "outside the view" to watch; its logical content is what counts.
func (b *Built) CoversRoot() bool { return len(b.Idx) == len(b.RootE) }

func (b *Built) HasGaps() bool {
	if b.L.Final == "clone" && b.T != nil && !b.T.IsScalar() && b.T.DataSize() > len(b.Idx) {
		return true // a clone of a strided view owns storage with the view's gaps
	}
	if b.Detached || len(b.Idx) == 0 {
		return false
	}
	lo, hi := b.rawPos[b.Idx[0]], b.rawPos[b.Idx[0]]
	for _, j := range b.Idx {
		if p := b.rawPos[j]; p < lo {
			lo = p
		} else if p > hi {
			hi = p
		}
	}
	if hi-lo+1 > len(b.Idx) {
		return true
	}
	// a window that reaches past the last selected element (a range wider than what its step selects)
	return b.T != nil && !b.T.IsScalar() && b.T.DataSize() > len(b.Idx)
}

// safeAt calls At and converts a panic into an error string.
func safeAt(t tensor.Tensor, c []int) (v interface{}, err error) {
	defer func() {
		if r := recover(); r != nil {
			err = fmt.Errorf("panic: %v", r)
		}
	}()
	return t.At(c...)
}

// compareAt sweeps every coordinate of want and compares with t.At.
func compareAt(t tensor.Tensor, want Arr, eq func(a, b interface{}) bool) string {
	censusObserve(t)
	if len(want.Shape) == 0 || t.Shape().IsScalar() {
		var v interface{}
		if t.Shape().IsScalar() {
			v = t.ScalarValue()
		} else {
			var err error
			if v, err = safeAt(t, make([]int, t.Dims())); err != nil {
				return fmt.Sprintf("At of one-element tensor: %v", err)
			}
		}
		if len(want.E) != 1 {
			return fmt.Sprintf("tensor is a scalar, expected shape %v", want.Shape)
		}
		if !eq(v, want.E[0]) {
			return fmt.Sprintf("scalar value is %s, expected %s", fmtVal(v), fmtVal(want.E[0]))
		}
		return ""
	}
	if !eqInts([]int(t.Shape()), want.Shape) {
		return fmt.Sprintf("shape is %v, expected %v", t.Shape(), want.Shape)
	}
	for k, c := range coordsOf(want.Shape) {
		v, err := safeAt(t, c)
		if err != nil {
			return fmt.Sprintf("At(%v) failed: %v", c, err)
		}
		if !eq(v, want.E[k]) {
			return fmt.Sprintf("element %v is %s, expected %s (got all %s, want %s)", c, fmtVal(v), fmtVal(want.E[k]), fmtVals(readAll(t)), fmtVals(want.E))
		}
	}
	return ""
}

// readAll reads all logical elements through At (nil entries on failure).
// dirtyPools hands out again, and overwrites, whatever shape/stride records the pools got back.
func dirtyPools() {
	for _, sh := range [][]int{{7, 6}, {6, 7, 8}, {9, 8, 7, 6}, {11}, {12, 13}, {5, 4, 3, 2, 2}} {
		x := tensor.New(tensor.Of(tensor.Int), tensor.WithShape(sh...))
		_ = x.T()
	}
}

// derivedProbe observes t through operations that trust its flags (contiguity, transposed bit, data
// order) rather than its strides: the whole-tensor view, a leading-axis cut and a clone, each read
// back element by element and through Materialize. t itself is not changed.
func derivedProbe(t *tensor.Dense, m Arr) string {
	if len(m.Shape) == 0 || len(m.E) == 0 {
		return ""
	}
	type probe struct {
		name string
		sl   []tensor.Slice
		lo   int
	}
	probes := []probe{{"Slice()", nil, 0}, {"Slice([0:n])", []tensor.Slice{RS{0, m.Shape[0], 1}}, 0}}
	if m.Shape[0] >= 3 {
		probes = append(probes, probe{"Slice([1:n])", []tensor.Slice{RS{1, m.Shape[0], 1}}, 1})
	}
	for _, pr := range probes {
		var v tensor.View
		var err error
		if pan := try(func() { v, err = t.Slice(pr.sl...) }); pan != "" {
			return pr.name + " panicked: " + pan
		}
		if err != nil {
			return pr.name + " refused: " + err.Error()
		}
		inner := prod(m.Shape[1:])
		want := Arr{DT: m.DT, Shape: append([]int{m.Shape[0] - pr.lo}, m.Shape[1:]...), E: m.E[pr.lo*inner:]}
		// an axis cut to length one by an explicit range may be dropped
		if got := []int(v.Shape()); prod(got) == len(want.E) && len(got) < len(want.Shape) {
			want.Shape = cloneInts(got)
		}
		if msg := compareAt(v, want, bitEqVal); msg != "" {
			return pr.name + ": " + msg
		}
		var mat tensor.Tensor
		if pan := try(func() { mat = v.Materialize() }); pan != "" {
			return pr.name + ".Materialize() panicked: " + pan
		}
		if msg := compareAt(mat, want, bitEqVal); msg != "" {
			return pr.name + ".Materialize(): " + msg
		}
	}
	var cl tensor.Tensor
	if pan := try(func() { cl = t.Clone().(*tensor.Dense) }); pan != "" {
		return "Clone() panicked: " + pan
	}
	if msg := compareAt(cl, m, bitEqVal); msg != "" {
		return "Clone(): " + msg
	}
	return ""
}

func readAll(t tensor.Tensor) []interface{} {
	if t.Shape().IsScalar() {
		return []interface{}{t.ScalarValue()}
	}
	var out []interface{}
	for _, c := range coordsOf([]int(t.Shape())) {
		v, err := safeAt(t, c)
		if err != nil {
			v = nil
		}
		out = append(out, v)
	}
	return out
}

// arrOf reads a tensor into a model array via At (used for snapshots).
func arrOf(t tensor.Tensor) Arr {
	d := DT{Name: t.Dtype().Name(), T: t.Dtype()}
	if t.Dtype() == tensor.UnsafePointer {
		d = dtUnsafe
	}
	return Arr{DT: d, Shape: cloneInts([]int(t.Shape())), E: readAll(t)}
}

// ---------------------------------------------------------------- generators

func genPerm(t *rapid.T, n int, label string) []int {
	if n <= 1 {
		return iota(n)
	}
	return rapid.Permutation(iota(n)).Draw(t, label)
}

func genNonIdPerm(t *rapid.T, n int, label string) []int {
	if n <= 1 {
		return iota(n)
	}
	ps := allPermsCached(n)
	return cloneIntsNN(ps[rapid.IntRange(1, len(ps)-1).Draw(t, label)])
}

var permCache = map[int][][]int{}

func allPermsCached(n int) [][]int {
	if p, ok := permCache[n]; ok {
		return p
	}
	p := allPerms(n)
	permCache[n] = p
	return p
}

func genSliceStep(t *rapid.T, rank int, stepped bool, label string) LStep {
	st := LStep{Op: "slice", Lo: make([]int, rank), Hi: make([]int, rank), Step: make([]int, rank), Nil: rapid.Bool().Draw(t, label+"nil")}
	any := false
	for j := 0; j < rank; j++ {
		st.Lo[j] = rapid.IntRange(0, 2).Draw(t, label+"lo")
		st.Hi[j] = rapid.IntRange(0, 2).Draw(t, label+"hi")
		st.Step[j] = 1
		if stepped {
			st.Step[j] = rapid.IntRange(1, 3).Draw(t, label+"step")
		}
		if st.Lo[j]+st.Hi[j] > 0 || st.Step[j] > 1 {
			any = true
		}
	}
	if !any && rank > 0 {
		j := rapid.IntRange(0, rank-1).Draw(t, label+"force")
		if stepped {
			st.Step[j] = 2
		} else {
			st.Lo[j] = 1
		}
	}
	if stepped {
		hasStep := false
		for _, s := range st.Step {
			if s > 1 {
				hasStep = true
			}
		}
		if !hasStep && rank > 0 {
			st.Step[rapid.IntRange(0, rank-1).Draw(t, label+"forcestep")] = 2
		}
	}
	return st
}

// Layout kinds understood by genLayoutKind.
var rmLayoutKinds = []string{"contig", "lazyT", "sliced", "stepsliced", "slicedT", "Tsliced", "picked", "pickslice", "materialized"}
var c06LayoutKinds = []string{"contig", "lazyT", "sliced", "stepsliced", "materialized", "physT", "picked", "pickslice", "clonedview", "decoded"}
var cmLayoutKinds = []string{"cmraw", "cmconv", "cmraw+sliced", "cmraw+lazyT", "cmconv+sliced"}

// genLayoutKind draws a recipe of the named kind for an array of the given rank.
func genLayoutKind(t *rapid.T, kind string, rank int, label string) Layout {
	root := "rm"
	switch {
	case len(kind) >= 6 && kind[:6] == "cmconv":
		root = "cmconv"
		kind = kind[6:]
	case len(kind) >= 5 && kind[:5] == "cmraw":
		root = "cmraw"
		kind = kind[5:]
	}
	if len(kind) > 0 && kind[0] == '+' {
		kind = kind[1:]
	}
	l := Layout{Root: root, Opt: rapid.IntRange(0, 2).Draw(t, label+"opt")}
	if rank == 0 {
		return l
	}
	switch kind {
	case "", "contig":
	case "lazyT":
		l.Steps = []LStep{{Op: "T", Perm: genNonIdPerm(t, rank, label+"perm")}}
	case "physT":
		l.Steps = []LStep{{Op: "T", Perm: genNonIdPerm(t, rank, label+"perm")}}
		l.Final = "phys"
	case "sliced":
		l.Steps = []LStep{genSliceStep(t, rank, false, label)}
	case "stepsliced":
		l.Steps = []LStep{genSliceStep(t, rank, true, label)}
	case "leadsliced":
		// a slice of the leading axis only: a view whose storage window has no gaps
		st := LStep{Op: "slice", Lo: make([]int, rank), Hi: make([]int, rank), Step: ones(rank), Nil: rapid.IntRange(0, 3).Draw(t, label+"nil") > 0}
		st.Lo[0] = rapid.IntRange(0, 2).Draw(t, label+"lo")
		st.Hi[0] = rapid.IntRange(0, 2).Draw(t, label+"hi")
		if st.Lo[0]+st.Hi[0] == 0 {
			st.Lo[0] = 1
		}
		l.Steps = []LStep{st}
	case "tailsliced":
		// a slice of the trailing axis only: for a column-major root a view whose storage window has no gaps
		st := LStep{Op: "slice", Lo: make([]int, rank), Hi: make([]int, rank), Step: ones(rank), Nil: rapid.IntRange(0, 3).Draw(t, label+"nil") > 0}
		st.Lo[rank-1] = rapid.IntRange(0, 2).Draw(t, label+"lo")
		st.Hi[rank-1] = rapid.IntRange(0, 2).Draw(t, label+"hi")
		if st.Lo[rank-1]+st.Hi[rank-1] == 0 {
			st.Lo[rank-1] = 1
		}
		l.Steps = []LStep{st}
	case "slicedT":
		l.Steps = []LStep{genSliceStep(t, rank, rapid.Bool().Draw(t, label+"st"), label), {Op: "T", Perm: genNonIdPerm(t, rank, label+"perm")}}
	case "Tsliced":
		l.Steps = []LStep{{Op: "T", Perm: genNonIdPerm(t, rank, label+"perm")}, genSliceStep(t, rank, rapid.Bool().Draw(t, label+"st"), label)}
	case "picked":
		ax := rapid.IntRange(0, rank).Draw(t, label+"axis")
		sz := rapid.IntRange(2, 3).Draw(t, label+"size")
		st := LStep{Op: "pick", Axis: ax, Size: sz, Idx: rapid.IntRange(0, sz-1).Draw(t, label+"idx")}
		if rapid.IntRange(0, 2).Draw(t, label+"wide") == 0 {
			// one index selected by a range wider than one entry whose step jumps past its end
			st.W = rapid.IntRange(2, 3).Draw(t, label+"w")
			st.PStep = st.W
			if ax > 0 { // on the leading axis a step that does not divide the extent is known finding F2
				st.PStep += rapid.IntRange(0, 1).Draw(t, label+"ps")
			}
			st.Idx = rapid.IntRange(0, 1).Draw(t, label+"idx2")
			st.Size = st.Idx + st.W + rapid.IntRange(0, 1).Draw(t, label+"tail")
		}
		l.Steps = []LStep{st}
	case "pickslice":
		// a single Slice call mixing one single index with ranges on the other axes
		st := genSliceStep(t, rank, rapid.IntRange(0, 2).Draw(t, label+"st") == 0, label)
		st.Op = "spick"
		st.Axis = rapid.IntRange(0, rank).Draw(t, label+"axis")
		st.Size = rapid.IntRange(2, 3).Draw(t, label+"size")
		st.Idx = rapid.IntRange(0, st.Size-1).Draw(t, label+"idx")
		l.Steps = []LStep{st}
	case "materialized":
		l.Steps = []LStep{genSliceStep(t, rank, rapid.Bool().Draw(t, label+"st"), label)}
		l.Final = "mat"
	case "decoded":
		if rapid.Bool().Draw(t, label+"dsl") {
			l.Steps = []LStep{genSliceStep(t, rank, false, label)}
		}
		l.Final = "pbdec"
	case "clonedview":
		l.Steps = []LStep{genSliceStep(t, rank, rapid.Bool().Draw(t, label+"st"), label)}
		l.Final = "clone"
	default:
		panic("HARNESS: unknown layout kind " + kind)
	}
	return l
}

func genShape(t *rapid.T, minRank, maxRank, maxDim int, label string) []int {
	r := rapid.IntRange(minRank, maxRank).Draw(t, label+"rank")
	s := make([]int, r)
	for i := range s {
		s[i] = rapid.IntRange(1, maxDim).Draw(t, label+"dim")
	}
	return s
}

// genShapeMin2 draws a shape with at least two elements.
func genShapeMin2(t *rapid.T, minRank, maxRank, maxDim int, label string) []int {
	if minRank < 1 {
		minRank = 1
	}
	s := genShape(t, minRank, maxRank, maxDim, label)
	if prod(s) < 2 {
		s[rapid.IntRange(0, len(s)-1).Draw(t, label+"grow")] = rapid.IntRange(2, maxDim).Draw(t, label+"growto")
	}
	return s
}

// genCodes draws n value codes: mostly small integers in [lo,hi], sometimes specials.
// cplxCodes switches genCodes to the 2000-range (complex numbers with non-zero imaginary parts).
var cplxCodes bool

func genCodes(t *rapid.T, n int, lo, hi int64, specialPct int, label string) []int64 {
	out := make([]int64, n)
	for i := range out {
		if cplxCodes && rapid.IntRange(0, 2).Draw(t, label+"cx") > 0 {
			out[i] = 2000 + int64(rapid.IntRange(0, 48).Draw(t, label+"cxv"))
			continue
		}
		if specialPct > 0 && rapid.IntRange(0, 99).Draw(t, label+"sp") < specialPct {
			out[i] = 1000 + int64(rapid.IntRange(0, 11).Draw(t, label+"spi"))
		} else {
			out[i] = rapid.Int64Range(lo, hi).Draw(t, label)
		}
	}
	return out
}

var _ = reflect.TypeOf
