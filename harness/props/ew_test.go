package props

import (
	"fmt"
	"reflect"

	"gorgonia.org/tensor"
	"pgregory.net/rapid"
)

// Shared machinery for the elementwise families (arithmetic, comparison,
// unary) used by C06, C07, C11, C12, C16, C17 and C20.

// Opnd is one tensor operand of a case.
type Opnd struct {
	Shape []int   `json:"shape"`
	Codes []int64 `json:"codes"`
	L     Layout  `json:"layout"`
	Mask  []bool  `json:"mask,omitempty"`
}

func (o Opnd) arr(d DT) Arr { return mkArr(d, o.Shape, o.Codes) }

// EWCase is one elementwise operation call.
type EWCase struct {
	Prop     string `json:"prop"`
	Fam      string `json:"fam"` // arith | cmp | unary
	Op       string `json:"op"`
	DT       string `json:"dt"`
	Form     string `json:"form"` // TT | TS | ST (S: Go scalar) ; unary: T
	Via      string `json:"via"`  // pkg | method
	Mode     string `json:"mode"` // safe | unsafe | reuse | reuseA | reuseB | incr
	SameType bool   `json:"same,omitempty"`
	A        Opnd   `json:"a"`
	B        *Opnd  `json:"b,omitempty"`
	BDT      string `json:"bdt,omitempty"` // when set: element type of B / the scalar (mismatch cells)
	Scalar   int64  `json:"scalar,omitempty"`
	ScT      bool   `json:"scalar_as_tensor,omitempty"` // the scalar operand is given as a scalar-shaped tensor (package functions only)
	Dst      *Opnd  `json:"dst,omitempty"`
	Lo       int64  `json:"lo,omitempty"` // Clamp bounds
	Hi       int64  `json:"hi,omitempty"`
	Engine   string `json:"engine,omitempty"` // "" (StdEng) | "f64" | "f32"
	// Pre: an unrelated call that the library must refuse is made first, with a reuse / increment tensor
	// that would fit THIS call ("reuse-dtype", "incr-dtype": wrong element type for the refused call;
	// "reuse-size": wrong size). The refusal must leave nothing behind: this call neither touches nor
	// returns that tensor.
	Pre string `json:"pre,omitempty"`
	// BSame: the second operand is the first one (the same *Dense passed twice); B repeats A's description
	BSame bool `json:"bSame,omitempty"`
	// AlsoUnsafe: UseUnsafe() is passed together with WithReuse (the reuse tensor is still the destination)
	AlsoUnsafe bool `json:"alsoUnsafe,omitempty"`
	// SafeOpt: safe mode asked for explicitly with UseSafe() instead of by passing no option
	SafeOpt bool `json:"safeOpt,omitempty"`
	// Strict: every assertion also inside the region of a recorded finding (only witnesses set this)
	Strict   bool    `json:"strict,omitempty"`
	Tol      float64 `json:"-"`
	scTensor *tensor.Dense
	scVal    interface{}
}

func (c *EWCase) NTKey() string {
	if prod(c.A.Shape) < 2 {
		return ""
	}
	nc := !c.A.L.IsContig() || (c.B != nil && !c.B.L.IsContig()) || (c.Dst != nil && !c.Dst.L.IsContig())
	switch c.Prop {
	case "C06":
		if !nc {
			return ""
		}
	case "C07":
		if c.Mode == "safe" || !nc {
			return ""
		}
	case "C12":
		if c.Mode == "safe" && !nc {
			return ""
		}
	}
	return fmt.Sprintf("%s|%s|%s|%s|%s|%s|%v|%v|%v|%v|%v|%v|%s|%v|%v|%v", c.Op, c.DT, c.Form, c.Via, c.Mode, c.Engine, c.SameType, c.ScT, c.A.Shape, c.A.L, layoutOf(c.B), layoutOf(c.Dst), c.Pre, c.BSame, c.AlsoUnsafe, c.SafeOpt)
}

func layoutOf(o *Opnd) string {
	if o == nil {
		return "-"
	}
	return o.L.String()
}

var pkgBinary = map[string]func(a, b interface{}, opts ...tensor.FuncOpt) (tensor.Tensor, error){
	"Add": tensor.Add, "Sub": tensor.Sub, "Mul": tensor.Mul, "Div": tensor.Div, "Mod": tensor.Mod, "Pow": tensor.Pow,
	"MinBetween": tensor.MinBetween, "MaxBetween": tensor.MaxBetween,
	"Lt": tensor.Lt, "Gt": tensor.Gt, "Lte": tensor.Lte, "Gte": tensor.Gte, "ElEq": tensor.ElEq, "ElNe": tensor.ElNe,
}

var pkgUnary = map[string]func(a tensor.Tensor, opts ...tensor.FuncOpt) (tensor.Tensor, error){
	"Neg": tensor.Neg, "Inv": tensor.Inv, "Square": tensor.Square, "Cube": tensor.Cube, "Exp": tensor.Exp, "Tanh": tensor.Tanh,
	"Log": tensor.Log, "Log2": tensor.Log2, "Log10": tensor.Log10, "Sqrt": tensor.Sqrt, "Cbrt": tensor.Cbrt, "InvSqrt": tensor.InvSqrt,
	"Abs": tensor.Abs, "Sign": tensor.Sign,
}

var arithOps = []string{"Add", "Sub", "Mul", "Div", "Mod", "Pow", "MinBetween", "MaxBetween"}
var cmpOps = []string{"Lt", "Gt", "Lte", "Gte", "ElEq", "ElNe"}
var unaryOps = []string{"Neg", "Inv", "Square", "Cube", "Abs", "Sign", "Clamp", "Sqrt", "Cbrt", "InvSqrt", "Exp", "Log", "Log2", "Log10", "Tanh"}

// opSupports is the type class the statement assigns to each operation.
func opSupports(fam, op string, d DT) bool {
	switch fam {
	case "arith":
		switch op {
		case "Add", "Sub", "Mul", "Div":
			return d.IsNum()
		case "Mod":
			return d.IsInt() || d.IsFloat()
		case "Pow":
			return d.IsFloat() || d.IsComplex()
		case "MinBetween", "MaxBetween":
			return d.IsInt() || d.IsFloat() || d.Name == "string"
		}
	case "cmp":
		switch op {
		case "ElEq", "ElNe":
			return d.IsNum() || d.Name == "bool" || d.Name == "string" || d.Name == "uintptr" || d.Name == "unsafe.Pointer"
		}
		return d.IsOrd() || d.Name == "uintptr"
	case "unary":
		switch op {
		case "Neg", "Inv", "Square", "Cube":
			return d.IsNum()
		case "Abs", "Sign":
			return d.IsSigned() || d.IsFloat()
		case "Clamp":
			return d.IsInt() || d.IsFloat()
		case "Sqrt", "Exp", "Log", "Tanh", "Log10":
			return d.IsFloat() || d.IsComplex()
		case "Cbrt", "Log2", "InvSqrt":
			return d.IsFloat()
		}
	}
	return false
}

// built operand plus snapshot
type opndB struct {
	arr  Arr
	b    *Built
	mask []bool // the mask the operand was built with (nil: none)
}

func buildOpnd(o *Opnd, d DT) (*opndB, string) {
	a := o.arr(d)
	b, err := Build(a, o.L, o.Mask)
	if err != nil {
		return nil, inconclusive
	}
	return &opndB{arr: a, b: b, mask: o.Mask}, ""
}

// unchanged verifies that an operand (and its root's storage) is as built.
func (o *opndB) unchanged(name string) string {
	if msg := compareAt(o.b.T, o.arr, bitEqVal); msg != "" {
		return name + " was modified: " + msg
	}
	if !o.b.Detached {
		if diff := o.b.FrameDiff(o.b.RootE); diff != "" {
			return name + "'s storage was modified: " + diff
		}
	}
	// the mask is part of the operand
	if o.mask != nil && len(o.arr.Shape) > 0 {
		if !o.b.T.IsMasked() {
			return name + " lost its mask"
		}
		for k, cc := range coordsOf(o.arr.Shape) {
			if mb, err := o.b.T.MaskAt(cc...); err != nil || mb != o.mask[k] {
				return name + fmt.Sprintf("'s mask bit at %v is %v (err %v), it was %v", cc, mb, err, o.mask[k])
			}
		}
	}
	return ""
}

func withEngine(t *tensor.Dense, eng string) {
	switch eng {
	case "f64":
		tensor.WithEngine(tensor.Float64Engine{})(t)
	case "f32":
		tensor.WithEngine(tensor.Float32Engine{})(t)
	}
}

func clampModel(v, lo, hi interface{}) interface{} {
	if l, ok := cmpop("Lt", v, lo); ok && l {
		return lo
	}
	if g, ok := cmpop("Gt", v, hi); ok && g {
		return hi
	}
	return v
}

// Run executes the call and compares with the model; a case that carries a specialised engine is
// then run once more with the default engine, and the two deliveries - shape included - must agree.
func (c *EWCase) Run() string {
	msg := c.run()
	if msg != "" || c.Engine == "" || !ewLast.Computed {
		return msg
	}
	mine := ewLast
	ref := *c
	ref.Engine, ref.scTensor, ref.scVal = "", nil, nil
	rmsg := ref.run()
	theirs := ewLast
	ewLast = mine
	if rmsg != "" || !theirs.Computed {
		return "" // what the default engine does with this case is the business of the other checks
	}
	if !eqInts(mine.Result.Shape, theirs.Result.Shape) {
		return fmt.Sprintf("%s.%s(%s, mode %s) a=%v%v dst=%v: engine %q delivers shape %v, the default engine %v", c.Fam, c.Op, c.DT, c.Mode, c.A.Shape, c.A.L, layoutOf(c.Dst), c.Engine, mine.Result.Shape, theirs.Result.Shape)
	}
	for k := range mine.Result.E {
		if !eqVal(mine.Result.E[k], theirs.Result.E[k]) {
			return fmt.Sprintf("%s.%s(%s, mode %s) a=%v%v: element %d is %s with engine %q but %s with the default engine", c.Fam, c.Op, c.DT, c.Mode, c.A.Shape, c.A.L, k, fmtVal(mine.Result.E[k]), c.Engine, fmtVal(theirs.Result.E[k]))
		}
	}
	rec.Class("engine:compared-with-default")
	return ""
}

func (c *EWCase) run() string {
	d := dtByName(c.DT)
	bd := d
	if c.BDT != "" {
		bd = dtByName(c.BDT)
	}
	A, msg := buildOpnd(&c.A, d)
	if msg != "" {
		return msg
	}
	withEngine(A.b.T, c.Engine)
	var B *opndB
	if c.B != nil && c.BSame && c.BDT == "" && fmt.Sprint(*c.B) == fmt.Sprint(c.A) {
		B = A // the very same tensor on both sides
		rec.Class("operands:same-tensor-twice")
	} else if c.B != nil {
		if B, msg = buildOpnd(c.B, bd); msg != "" {
			return msg
		}
		withEngine(B.b.T, c.Engine)
	}
	var sc interface{}
	if c.Form == "TS" || c.Form == "ST" {
		sc = decode(bd, c.Scalar)
	}
	// ---- model: expected safe-mode values
	n := len(A.arr.E)
	supported := opSupports(c.Fam, c.Op, d)
	mustRefuse := !supported
	if c.BDT != "" && c.BDT != c.DT {
		mustRefuse = true
	}
	if B != nil && !eqInts(B.arr.Shape, A.arr.Shape) {
		mustRefuse = true
	}
	exp := make([]interface{}, n)
	hasUndef := false
	if !mustRefuse {
		for k := 0; k < n; k++ {
			var v interface{}
			var ok bool
			switch c.Fam {
			case "arith":
				switch c.Form {
				case "TT":
					v, ok = binop(c.Op, A.arr.E[k], B.arr.E[k])
				case "TS":
					v, ok = binop(c.Op, A.arr.E[k], sc)
				case "ST":
					v, ok = binop(c.Op, sc, A.arr.E[k])
				}
			case "cmp":
				var bv bool
				switch c.Form {
				case "TT":
					bv, ok = cmpop(c.Op, A.arr.E[k], B.arr.E[k])
				case "TS":
					bv, ok = cmpop(c.Op, A.arr.E[k], sc)
				case "ST":
					bv, ok = cmpop(c.Op, sc, A.arr.E[k])
				}
				v = bv
				if c.SameType || c.Mode == "unsafe" || c.Mode == "reuseA" || c.Mode == "reuseB" || c.Mode == "reuseAv" || c.Mode == "reuseBv" || c.Mode == "reuseAx" {
					if bv {
						v = oneOf(d)
					} else {
						v = zeroOf(d)
					}
				}
			case "unary":
				if c.Op == "Clamp" {
					v, ok = clampModel(A.arr.E[k], decode(d, c.Lo), decode(d, c.Hi)), true
				} else {
					v, ok = unop(c.Op, A.arr.E[k])
				}
			}
			if !ok {
				panic(fmt.Sprintf("HARNESS: model has no %s.%s for %s although the type class says supported", c.Fam, c.Op, d.Name))
			}
			if (d.Name == "float32" || d.Name == "complex64") && ((c.Fam == "arith" && opInexact(c.Op, d)) || (c.Fam == "unary" && unopInexact(c.Op, d))) {
				// third-party 32-bit maths routines: awkward arguments (non-finite, subnormal) are not asserted
				other := sc
				if c.Form == "TT" {
					other = B.arr.E[k]
				}
				if awkward32(A.arr.E[k]) || (other != nil && awkward32(other)) {
					v = undef
				}
			}
			if c.Op == "MinBetween" || c.Op == "MaxBetween" {
				// the minimum/maximum of a NaN and a number depends on how it is written; not asserted
				other := sc
				if c.Form == "TT" {
					other = B.arr.E[k]
				}
				if isNaNVal(A.arr.E[k]) || isNaNVal(other) {
					v = undef
				}
			}
			masked := (c.A.Mask != nil && c.A.Mask[k]) || (c.B != nil && c.B.Mask != nil && c.B.Mask[k]) || (c.Dst != nil && c.Dst.Mask != nil && c.Dst.Mask[k])
			if isUndef(v) && !masked {
				hasUndef = true // (a zero divisor hidden under the mask is not operated on: no error is due for it)
			}
			if masked {
				v = maskedOut // nothing is stated about positions that are masked in an operand
			}
			exp[k] = v
		}
	}
	resDT := d
	if c.Fam == "cmp" && !(c.SameType || c.Mode == "unsafe" || c.Mode == "reuseA" || c.Mode == "reuseB" || c.Mode == "reuseAv" || c.Mode == "reuseBv" || c.Mode == "reuseAx") {
		resDT = dtBool
	}
	// ---- destination
	var Dst *opndB
	var dstT, aliasView *tensor.Dense
	crossAlias := false
	var opts []tensor.FuncOpt
	switch c.Mode {
	case "safe":
		if c.SafeOpt {
			rec.Class("safe-explicit")
			opts = append(opts, tensor.UseSafe())
		}
	case "unsafe":
		opts = append(opts, tensor.UseUnsafe())
	case "reuse", "incr":
		if Dst, msg = buildOpnd(c.Dst, resDT); msg != "" {
			return msg
		}
		withEngine(Dst.b.T, c.Engine)
		dstT = Dst.b.T
		if c.Mode == "reuse" {
			opts = append(opts, tensor.WithReuse(dstT))
			if c.AlsoUnsafe {
				opts = append(opts, tensor.UseUnsafe())
			}
		} else {
			opts = append(opts, tensor.WithIncr(dstT))
		}
	case "incrA":
		// the increment tensor is the operand itself: x += f(x), every f(x) taken from the old x
		dstT = A.b.T
		opts = append(opts, tensor.WithIncr(dstT))
	case "reuseA":
		dstT = A.b.T
		opts = append(opts, tensor.WithReuse(dstT))
	case "reuseB":
		dstT = B.b.T
		opts = append(opts, tensor.WithReuse(dstT))
	case "reuseAv", "reuseBv":
		// a different *Dense over the very memory of an operand: a view of the whole of it
		src := A
		if c.Mode == "reuseBv" {
			src = B
		}
		v, err := src.b.T.Slice()
		if err != nil {
			return inconclusive
		}
		dstT = v.(*tensor.Dense)
		aliasView = dstT
		opts = append(opts, tensor.WithReuse(dstT))
	case "reuseAx":
		// a destination that aliases operand a only partly and with another layout: a is column 0 of
		// a square matrix, the destination is its row 0; they share exactly the first element
		if len(A.b.RootShp) != 2 || A.b.RootShp[0] != A.b.RootShp[1] || A.b.Root == A.b.T {
			panic("HARNESS: reuseAx needs a column operand")
		}
		v, err := A.b.Root.Slice(RS{0, 1, 1})
		if err != nil || !eqInts([]int(v.Shape()), A.arr.Shape) {
			return inconclusive
		}
		dstT = v.(*tensor.Dense)
		withEngine(dstT, c.Engine)
		aliasView = dstT
		crossAlias = true
		opts = append(opts, tensor.WithReuse(dstT))
	default:
		panic("HARNESS: unknown mode " + c.Mode)
	}
	if c.SameType {
		opts = append(opts, tensor.AsSameType())
	}
	// which tensor is the designated destination
	var dest *opndB
	switch c.Mode {
	case "unsafe":
		dest = A
	case "reuse", "incr":
		dest = Dst
	case "reuseA", "reuseAv", "reuseAx", "incrA":
		dest = A
	case "reuseB", "reuseBv":
		dest = B
	}
	// ---- a refused call beforehand
	var preR *tensor.Dense
	var preM Arr
	if c.Pre != "" && len(A.arr.Shape) > 0 {
		od := dtInt16
		if resDT.Name == "int16" {
			od = dtInt32
		}
		x := tensor.New(tensor.Of(od.T), tensor.WithShape(A.arr.Shape...))
		y := tensor.New(tensor.Of(od.T), tensor.WithShape(A.arr.Shape...))
		preM = seqArr(resDT, A.arr.Shape, 77)
		preR = tensor.New(tensor.WithShape(A.arr.Shape...), tensor.WithBacking(mkBacking(resDT, preM.E)))
		var perr error
		pp := try(func() {
			switch c.Pre {
			case "reuse-dtype":
				_, perr = tensor.Add(x, y, tensor.WithReuse(preR))
			case "incr-dtype":
				_, perr = tensor.Add(x, y, tensor.WithIncr(preR))
			case "reuse-size":
				z := tensor.New(tensor.Of(od.T), tensor.WithShape(prod(A.arr.Shape)+1))
				_, perr = tensor.Add(z, z, tensor.WithReuse(preR))
			default:
				panic("HARNESS: unknown pre " + c.Pre)
			}
		})
		if pp != "" || perr == nil {
			preR = nil // not refused (or not with an error): nothing to follow up here
			rec.Class("pre:not-refused")
		} else {
			rec.Class("pre:" + c.Pre)
		}
	}
	// ---- the call
	var res tensor.Tensor
	var lerr error
	pan := try(func() { res, lerr = c.call(A.b.T, B, sc, d, opts) })
	if c.scTensor != nil && (c.Mode == "safe" || c.Mode == "reuse" || c.Mode == "incr") && pan == "" {
		// the scalar-shaped tensor operand is an operand like any other: it still holds its value
		var now interface{}
		if p := try(func() { now = c.scTensor.ScalarValue() }); p != "" || !bitEqVal(now, c.scVal) {
			return fmt.Sprintf("%s.%s(%s %s, mode %s): the scalar-shaped tensor operand held %s before the call and holds %s afterwards %s", c.Fam, c.Op, c.DT, c.Form, c.Mode, fmtVal(c.scVal), fmtVal(now), p)
		}
	}
	if preR != nil {
		if r, ok := res.(*tensor.Dense); ok && r == preR {
			return fmt.Sprintf("%s.%s(%s, mode %s) returned the tensor that an earlier, refused call was offered as its %s destination", c.Fam, c.Op, c.DT, c.Mode, c.Pre)
		}
		if m := compareAt(preR, preM, bitEqVal); m != "" {
			return fmt.Sprintf("%s.%s(%s, mode %s) wrote into the tensor that an earlier, refused call was offered as its %s destination: %s", c.Fam, c.Op, c.DT, c.Mode, c.Pre, m)
		}
	}
	desc := fmt.Sprintf("%s.%s(%s %s via %s, mode %s same=%v eng=%q) a=%v%v b=%v dst=%v", c.Fam, c.Op, c.DT, c.Form, c.Via, c.Mode, c.SameType, c.Engine, c.A.Shape, c.A.L, descB(c, sc), layoutOf(c.Dst))
	if pan != "" && hasUndef && !mustRefuse && c.Op != "MinBetween" && c.Op != "MaxBetween" {
		rec.Class("int-div-by-zero-panic")
		return "" // Go's own operator panics on an integer division by zero
	}
	if pan != "" {
		if mustRefuse {
			// a refusal "with an error" is demanded; a panic is not one
			return desc + ": invalid call panicked instead of returning an error: " + pan
		}
		return desc + " panicked: " + pan
	}
	ewLast = ewOutcome{}
	if mustRefuse {
		ewLast.Refused = true
		rec.Class("refusal-expected")
		if lerr == nil {
			return desc + fmt.Sprintf(": must be refused (unsupported type, mismatched shapes or element types) but returned %v", shapeOf(res))
		}
		if m := A.unchanged("operand a"); m != "" {
			return desc + ": refused, but " + m
		}
		if B != nil {
			if m := B.unchanged("operand b"); m != "" {
				return desc + ": refused, but " + m
			}
		}
		return ""
	}
	if lerr != nil {
		if hasUndef && c.Op != "MinBetween" && c.Op != "MaxBetween" {
			rec.Class("int-div-by-zero-error")
			return "" // integer division by zero: an error and/or any value is accepted there
		}
		if c.ScT && c.Fam == "cmp" {
			// a scalar-shaped TENSOR next to a tensor is, read strictly, a shape mismatch: a refusal is
			// in order (ElNe refuses it, the other comparisons dispatch it as a scalar)
			rec.Class("refused:scalar-shaped-tensor-operand")
			return A.unchanged("operand a")
		}
		if dest != nil && dest != Dst && dest.b.HasGaps() && !crossAlias {
			rec.Class("refused:destination-with-gaps")
			if m := A.unchanged("operand a"); m != "" {
				return desc + ": refused, but " + m
			}
			if B != nil {
				if m := B.unchanged("operand b"); m != "" {
					return desc + ": refused, but " + m
				}
			}
			return ""
		}
		if Dst != nil && Dst.b.HasGaps() {
			// a destination whose storage window has gaps is refused by the library: a loud refusal, counted
			rec.Class("refused:destination-with-gaps")
			if m := A.unchanged("operand a"); m != "" {
				return desc + ": refused, but " + m
			}
			if m := Dst.unchanged("destination"); m != "" {
				return desc + ": refused, but " + m
			}
			return ""
		}
		return desc + ": refused a valid call: " + lerr.Error()
	}
	rd, ok := res.(*tensor.Dense)
	if !ok || rd == nil {
		return desc + fmt.Sprintf(": returned %T", res)
	}
	// ---- identity of the returned tensor
	switch c.Mode {
	case "safe":
		if rd == A.b.T || (B != nil && rd == B.b.T) {
			return desc + ": safe mode returned an operand"
		}
	default:
		if aliasView != nil {
			if rd != aliasView {
				return desc + ": returned tensor is not the reuse tensor"
			}
		} else if rd != dest.b.T {
			return desc + fmt.Sprintf(": returned tensor is not the designated destination (%s)", c.Mode)
		}
	}
	// ---- delivered values
	want := Arr{DT: resDT, Shape: A.arr.Shape, E: exp}
	if c.Mode == "incr" || c.Mode == "incrA" {
		old := A.arr.E // incrA: the increment tensor is operand a itself
		if c.Mode == "incr" {
			old = Dst.arr.E
		}
		want = Arr{DT: resDT, Shape: A.arr.Shape, E: make([]interface{}, n)}
		for k := range exp {
			if isUndef(exp[k]) {
				want.E[k] = undef
				continue
			}
			want.E[k], _ = binop("Add", old[k], exp[k])
		}
	}
	inexact := (c.Fam == "arith" && opInexact(c.Op, d)) || (c.Fam == "unary" && unopInexact(c.Op, d)) || (c.Mode == "incr" && d.IsFloat() && false)
	eq := bitEqVal
	if c.Fam == "arith" || (c.Fam == "unary" && unopInexact(c.Op, d)) {
		eq = eqVal // -0 vs +0 are the same value of an arithmetic result
	}
	if inexact {
		eq = func(a, b interface{}) bool { return closeVal(a, b, 16) }
	}
	if inexact && c.Mode == "incr" {
		// old + f(x) may cancel: the error bound is relative to the two addends of THIS element, not to
		// their sum; the bound travels with the expected value
		eps := 2.3e-16
		if d.Name == "float32" || d.Name == "complex64" {
			eps = 1.2e-7
		}
		wt := Arr{DT: want.DT, Shape: want.Shape, E: make([]interface{}, len(want.E))}
		for k := range want.E {
			wt.E[k] = want.E[k]
			if isUndef(want.E[k]) || isUndef(exp[k]) || !finiteVal(exp[k]) || !finiteVal(Dst.arr.E[k]) {
				continue
			}
			wt.E[k] = tolVal{V: want.E[k], Tol: 32 * eps * maxF(magnitude(exp[k]), magnitude(Dst.arr.E[k]))}
		}
		want = wt
		base := eq
		eq = func(a, b interface{}) bool {
			if tv, ok := b.(tolVal); ok {
				return base(a, tv.V) || (finiteVal(a) && finiteVal(tv.V) && magnitude(subVal(a, tv.V)) <= tv.Tol)
			}
			return base(a, b)
		}
	}
	if inexact && (d.Name == "float32" || d.Name == "complex64") {
		// the 32-bit routines are third-party ports (math32): their handling of
		// non-finite arguments and overflow is not asserted
		base := eq
		eq = func(a, b interface{}) bool { return base(a, b) || (!finiteVal(a) && !finiteVal(b)) }
	}
	eqU := func(a, b interface{}) bool { return isUndef(b) || eq(a, b) }
	if rd.Dtype() != resDT.T {
		return desc + fmt.Sprintf(": result has element type %v, expected %v", rd.Dtype(), resDT.Name)
	}
	if c.Dst != nil && !eqInts(c.Dst.Shape, A.arr.Shape) && tensor.Shape(c.Dst.Shape).Eq(tensor.Shape(A.arr.Shape)) && prod([]int(rd.Shape())) == len(want.E) {
		// a destination that holds the same vector in another form ((n), (n,1), (1,n) are "equal" shapes to the
		// library): which form the result keeps is not stated; the engines must agree on it (see Run)
		want.Shape = cloneInts([]int(rd.Shape()))
	}
	if m := compareAt(rd, want, eqU); m != "" {
		return desc + ": result: " + m
	}
	ewLast.Result = arrOf(rd)
	ewLast.Computed = true
	// the delivered tensor is consistent in itself: observers that trust its flags (whole-tensor views,
	// leading-axis cuts, a clone, each materialised) read the same array
	if !hasUndef && c.A.Mask == nil && (c.B == nil || c.B.Mask == nil) && (c.Dst == nil || c.Dst.Mask == nil) && !inexact && len(want.Shape) > 0 && c.Mode != "incr" {
		if m := derivedProbe(rd, arrOf(rd)); m != "" {
			return desc + ": the delivered tensor reads correctly element by element, but " + m
		}
	}
	// ---- nothing but the destination was modified
	if dest != A && (!inF17(c) || c.Strict) {
		if m := A.unchanged("operand a"); m != "" {
			return desc + ": " + m
		}
	}
	if B != nil && dest != B {
		if m := B.unchanged("operand b"); m != "" {
			return desc + ": " + m
		}
	}
	if crossAlias {
		// row 0 of the shared matrix holds the result; everything else (column 0 below it included) is untouched
		wantRoot := append([]interface{}{}, A.b.RootE...)
		copy(wantRoot, readAll(rd))
		if diff := A.b.FrameDiff(wantRoot); diff != "" {
			return desc + ": the matrix shared by operand a (column 0) and the destination (row 0): " + diff
		}
		return ""
	}
	if dest != nil && !dest.b.Detached && !dest.b.CoversRoot() {
		// the destination's parent frame: only the view's own elements may have changed
		cur := readAll(dest.b.T)
		if len(cur) == len(dest.b.Idx) {
			if diff := dest.b.FrameDiff(dest.b.ExpectRoot(cur)); diff != "" {
				return desc + ": destination's parent outside the view: " + diff
			}
		}
	}
	return ""
}

func shapeOf(t tensor.Tensor) interface{} {
	if t == nil || (reflect.ValueOf(t).Kind() == reflect.Ptr && reflect.ValueOf(t).IsNil()) {
		return "<nil>"
	}
	return t.Shape()
}

func descB(c *EWCase, sc interface{}) string {
	if c.B != nil {
		return fmt.Sprintf("%v%v", c.B.Shape, c.B.L)
	}
	if sc != nil {
		return "scalar " + fmtVal(sc)
	}
	return "-"
}

func (c *EWCase) call(a *tensor.Dense, B *opndB, sc interface{}, d DT, opts []tensor.FuncOpt) (tensor.Tensor, error) {
	switch c.Fam {
	case "unary":
		if c.Op == "Clamp" {
			return tensor.Clamp(a, decode(d, c.Lo), decode(d, c.Hi), opts...)
		}
		return pkgUnary[c.Op](a, opts...)
	}
	if c.Via == "pkg" {
		f := pkgBinary[c.Op]
		if c.ScT && c.Form != "TT" {
			c.scVal = sc
			c.scTensor = tensor.New(tensor.FromScalar(sc)) // scalar-shaped tensors are dispatched as scalars
			sc = c.scTensor
		}
		switch c.Form {
		case "TT":
			return f(a, B.b.T, opts...)
		case "TS":
			return f(a, sc, opts...)
		case "ST":
			return f(sc, a, opts...)
		}
	}
	// methods, by name
	rv := reflect.ValueOf(a)
	var m reflect.Value
	var args []reflect.Value
	switch c.Form {
	case "TT":
		m = rv.MethodByName(c.Op)
		args = []reflect.Value{reflect.ValueOf(B.b.T)}
	case "TS":
		m = rv.MethodByName(c.Op + "Scalar")
		args = []reflect.Value{reflect.ValueOf(sc), reflect.ValueOf(true)}
	case "ST":
		m = rv.MethodByName(c.Op + "Scalar")
		args = []reflect.Value{reflect.ValueOf(sc), reflect.ValueOf(false)}
	}
	if !m.IsValid() {
		panic("HARNESS: no method " + c.Op + " for form " + c.Form)
	}
	for _, o := range opts {
		args = append(args, reflect.ValueOf(o))
	}
	out := m.Call(args)
	var err error
	if !out[1].IsNil() {
		err = out[1].Interface().(error)
	}
	if out[0].IsNil() {
		return nil, err
	}
	return out[0].Interface().(tensor.Tensor), err
}

// ---------------------------------------------------------------- generators

// genOpnd draws an operand of the given shape: value codes in [lo,hi] with specialPct% specials.
func genOpnd(rt *rapid.T, shape []int, lk string, lo, hi int64, specialPct int, label string) Opnd {
	return Opnd{Shape: cloneInts(shape), Codes: genCodes(rt, prod(shape), lo, hi, specialPct, label+"v"), L: genLayoutKind(rt, lk, len(shape), label+"l")}
}

func ewShape(rt *rapid.T) []int {
	switch rapid.IntRange(0, 11).Draw(rt, "shapeclass") {
	case 0:
		return rapid.SampledFrom([][]int{{2}, {1, 3}, {3, 1}, {1, 2, 1}, {2, 1, 1}}).Draw(rt, "vec")
	}
	return genShapeMin2(rt, 1, 4, 4, "s")
}

func finiteVal(v interface{}) bool {
	switch x := v.(type) {
	case float32:
		return x == x && x-x == 0
	case float64:
		return x == x && x-x == 0
	case complex64:
		return finiteVal(real(x)) && finiteVal(imag(x))
	case complex128:
		return finiteVal(real(x)) && finiteVal(imag(x))
	}
	return true
}

// inF25 is the region of known finding F25 (MinBetween/MaxBetween).
func inF25(c *EWCase) bool {
	if c.Op != "MinBetween" && c.Op != "MaxBetween" {
		return false
	}
	if c.Mode == "unsafe" || c.Mode == "incr" {
		return true
	}
	// (scalar on the left: the kernel walks a compact copy with the operand's own offsets - a panic when the
	// operand is a view with gaps; a lazily transposed whole tensor, whose offsets are a permutation of the
	// copy's, is computed correctly and lies outside the region)
	// (with a MASKED operand the validity bits are looked up by the operand's offsets as well, while the compact
	// copy is in logical order: wrong values at valid positions for every non-contiguous layout)
	return c.Form == "ST" && !c.A.L.IsContig() && (!c.A.L.onlyTransposed() || c.A.Mask != nil)
}

// inF39 is the region of known finding F39: float32/float64 division with a
// zero among the divisor elements (the vector kernel returns +Inf for x/0
// whatever the signs, and for 0/0).
func inF39(c *EWCase) bool {
	d := dtByName(c.DT)
	if c.Op != "Div" || !d.IsFloat() {
		return false
	}
	// the defect sits in the flat vector kernels: an operand that certainly needs an iterator (a pending
	// lazy transposition, a stepped slice) keeps the call out of them, and zero divisors are asserted there
	certainlyIter := func(o *Opnd) bool {
		l := o.L
		if l.Final != "" || l.IsCM() || len(l.Steps) != 1 {
			return false
		}
		st := l.Steps[0]
		switch st.Op {
		case "T":
			// a real transposition: two axes longer than one change their order
			// (o.Shape is the shape after the step: result axis i is source axis Perm[i])
			last := -1
			for i, ax := range st.Perm {
				if i < len(o.Shape) && o.Shape[i] > 1 {
					if ax < last {
						return true
					}
					last = ax
				}
			}
		case "slice":
			// a step that really skips elements: on an axis that is longer than one afterwards
			for j, x := range st.Step {
				if x > 1 && j < len(o.Shape) && o.Shape[j] > 1 {
					return true
				}
			}
		}
		return false
	}
	if prod(c.A.Shape) > 1 && (certainlyIter(&c.A) || (c.B != nil && certainlyIter(c.B))) && c.Engine == "" {
		return false
	}
	isZero := func(code int64) bool { return eqVal(decode(d, code), zeroOf(d)) }
	switch c.Form {
	case "TT":
		for _, x := range c.B.Codes {
			if isZero(x) {
				return true
			}
		}
	case "TS":
		return isZero(c.Scalar)
	case "ST":
		for _, x := range c.A.Codes {
			if isZero(x) {
				return true
			}
		}
	}
	return false
}

// avoidF39 replaces zero divisors by ones (counted).
func avoidF39(c *EWCase) {
	if !inF39(c) {
		return
	}
	rec.Class("excluded:F39")
	d := dtByName(c.DT)
	fix := func(codes []int64) {
		for i, x := range codes {
			if eqVal(decode(d, x), zeroOf(d)) {
				codes[i] = 1
			}
		}
	}
	switch c.Form {
	case "TT":
		fix(c.B.Codes)
		if c.BSame {
			fix(c.A.Codes) // the divisor IS the dividend
		}
	case "TS":
		c.Scalar = 1
	case "ST":
		fix(c.A.Codes)
	}
}

func awkward32(v interface{}) bool {
	switch x := v.(type) {
	case float32:
		a := x
		if a < 0 {
			a = -a
		}
		return !finiteVal(x) || (a != 0 && a < 1.2e-38) || a > 1e6 // math32's range reduction goes astray for huge arguments
	case complex64:
		return awkward32(real(x)) || awkward32(imag(x))
	}
	return false
}

// tolVal is an expected value with an absolute error bound of its own.
type tolVal struct {
	V   interface{}
	Tol float64
}

func (t tolVal) String() string { return fmtVal(t.V) }

func maxF(a, b float64) float64 {
	if a > b {
		return a
	}
	return b
}

func magnitude(v interface{}) float64 {
	switch x := v.(type) {
	case complex64:
		return cabs(complex128(x))
	case complex128:
		return cabs(x)
	case float32, float64:
		f := toF64(v)
		if f < 0 {
			return -f
		}
		return f
	}
	return 0
}

func cabs(x complex128) float64 {
	r, i := real(x), imag(x)
	if r < 0 {
		r = -r
	}
	if i < 0 {
		i = -i
	}
	return r + i
}

func subVal(a, b interface{}) interface{} {
	switch x := a.(type) {
	case float32:
		return x - b.(float32)
	case float64:
		return x - b.(float64)
	case complex64:
		return x - b.(complex64)
	case complex128:
		return x - b.(complex128)
	}
	return a
}

// maskedOut marks positions masked in an operand (treated like undefined ones by the comparison).
var maskedOut = undefinedVal{}

// ewOutcome is what the last EWCase.Run observed (used by the cross-type check C17).
type ewOutcome struct {
	Refused  bool
	Computed bool
	Result   Arr
}

var ewLast ewOutcome
