package props

import (
	"fmt"
	"reflect"
	"testing"

	"gorgonia.org/tensor"
	"pgregory.net/rapid"
)

// C08 — reductions fold exactly the elements along the requested axes.

type C08Case struct {
	Op   string `json:"op"` // Sum | Max | Min | Argmax | Argmin | Reduce
	DT   string `json:"dt"`
	A    Opnd   `json:"a"`
	Axes []int  `json:"axes"`          // Sum/Max/Min: the axes in call order (empty: none given = all); Arg*: one axis, or [-1] for all
	Via  string `json:"via"`           // pkg | method
	Eng  string `json:"eng,omitempty"` // "" | "f32" | "f64": the engine the operand carries
}

func init() { register("C08.reduce", func() Case { return &C08Case{} }) }

func (c *C08Case) NTKey() string {
	if len(c.A.Shape) < 2 {
		return ""
	}
	ok := false
	for _, ax := range c.Axes {
		if ax >= 0 && c.A.Shape[ax] > 1 {
			ok = true
		}
	}
	if len(c.Axes) == 0 || (len(c.Axes) == 1 && c.Axes[0] == -1) {
		ok = true
	}
	if !ok {
		return ""
	}
	return fmt.Sprintf("%s|%s|%v|%v|%v|%s|%s", c.Op, c.DT, c.A.Shape, c.A.L, c.Axes, c.Via, c.Eng)
}

func foldFor(op string) func(acc, v interface{}) interface{} {
	switch op {
	case "Sum", "Reduce":
		return func(acc, v interface{}) interface{} { r, _ := binop("Add", acc, v); return r }
	case "Max":
		return func(acc, v interface{}) interface{} {
			if g, _ := cmpop("Gt", v, acc); g {
				return v
			}
			return acc
		}
	case "Min":
		return func(acc, v interface{}) interface{} {
			if l, _ := cmpop("Lt", v, acc); l {
				return v
			}
			return acc
		}
	}
	panic("HARNESS: no fold for " + op)
}

func (c *C08Case) Run() string {
	d := dtByName(c.DT)
	A, msg := buildOpnd(&c.A, d)
	if msg != "" {
		return msg
	}
	rec.Class("layout:" + c.A.L.Kind())
	t := A.b.T
	withEngine(t, c.Eng)
	rank := len(c.A.Shape)
	desc := fmt.Sprintf("%s(%s via %s eng %q) axes %v of shape %v layout %v", c.Op, c.DT, c.Via, c.Eng, c.Axes, c.A.Shape, c.A.L)
	contiguous := c.A.L.IsContig() && !c.A.L.IsCM()
	var res tensor.Tensor
	var lerr error
	var want, alt Arr
	hasAlt := false
	switch c.Op {
	case "Sum", "Max", "Min":
		axes := c.Axes
		if len(axes) == 0 {
			axes = iota(rank)
		}
		want = A.arr.ReduceAxes(axes, foldFor(c.Op))
		call := cloneInts(c.Axes)
		pan := try(func() {
			switch {
			case c.Op == "Sum" && c.Via == "pkg":
				res, lerr = tensor.Sum(t, call...)
			case c.Op == "Sum":
				res, lerr = t.Sum(call...)
			case c.Op == "Max":
				res, lerr = t.Max(call...)
			case c.Op == "Min":
				res, lerr = t.Min(call...)
			}
		})
		if pan != "" {
			if !contiguous {
				rec.Class("panic-refusal:non-contiguous")
				return A.unchanged("the operand of a refused reduction")
			}
			return desc + " panicked: " + pan
		}
	case "Argmax", "Argmin":
		axis := c.Axes[0]
		cmpName := "Gt"
		if c.Op == "Argmin" {
			cmpName = "Lt"
		}
		if axis == -1 {
			best := 0
			for k := range A.arr.E {
				if b, _ := cmpop(cmpName, A.arr.E[k], A.arr.E[best]); b {
					best = k
				}
			}
			want = Arr{DT: dtInt, Shape: []int{}, E: []interface{}{best}}
		} else {
			// first index of the extreme along the axis
			idx := Arr{DT: A.arr.DT, Shape: A.arr.Shape, E: make([]interface{}, len(A.arr.E))}
			copy(idx.E, A.arr.E)
			var outShape []int
			for i, dd := range c.A.Shape {
				if i != axis {
					outShape = append(outShape, dd)
				}
			}
			if outShape == nil {
				outShape = []int{}
			}
			want = Arr{DT: dtInt, Shape: outShape, E: make([]interface{}, prod(outShape))}
			coord := make([]int, rank)
			for k, oc := range coordsOf(outShape) {
				copy(coord[:axis], oc[:axis])
				copy(coord[axis+1:], oc[axis:])
				best := 0
				coord[axis] = 0
				bv := A.arr.At(coord)
				for j := 1; j < c.A.Shape[axis]; j++ {
					coord[axis] = j
					if b, _ := cmpop(cmpName, A.arr.At(coord), bv); b {
						best, bv = j, A.arr.At(coord)
					}
				}
				want.E[k] = best
			}
		}
		ax := axis
		if axis == -1 {
			ax = tensor.AllAxes
		}
		pan := try(func() {
			switch {
			case c.Op == "Argmax" && c.Via == "pkg":
				res, lerr = tensor.Argmax(t, ax)
			case c.Op == "Argmax":
				res, lerr = t.Argmax(ax)
			case c.Via == "pkg":
				res, lerr = tensor.Argmin(t, ax)
			default:
				res, lerr = t.Argmin(ax)
			}
		})
		if pan != "" {
			if !contiguous {
				rec.Class("panic-refusal:non-contiguous")
				return A.unchanged("the operand of a refused reduction")
			}
			return desc + " panicked: " + pan
		}
	case "Reduce", "ReduceSub":
		axis := c.Axes[0]
		opName := "Add"
		if c.Op == "ReduceSub" {
			opName = "Sub" // a non-commutative function: the fold has to go along the axis in order
		}
		fold := func(acc, v interface{}) interface{} { r, _ := binop(opName, acc, v); return r }
		want = A.arr.ReduceAxes([]int{axis}, fold)
		if c.Op == "ReduceSub" {
			// the library seeds some of its kernels with the default value instead of the first element:
			// both conventions are accepted (see below), a different order of evaluation is not
			neg := A.arr.Clone()
			zero := zeroOf(d)
			first := map[int]bool{}
			for k, cc := range coordsOf(neg.Shape) {
				if cc[axis] == 0 {
					first[k] = true
				}
			}
			alt = A.arr.ReduceAxes([]int{axis}, fold)
			// fold(0, v0, v1, ...) = fold(v0, v1, ...) - 2*v0 ... computed directly instead:
			alt = Arr{DT: d, Shape: want.Shape, E: make([]interface{}, len(want.E))}
			var outShape []int
			for i, dd := range neg.Shape {
				if i != axis {
					outShape = append(outShape, dd)
				}
			}
			coord := make([]int, len(neg.Shape))
			for k, oc := range coordsOf(want.Shape) {
				copy(coord[:axis], oc[:axis])
				copy(coord[axis+1:], oc[axis:])
				acc := zero
				for j := 0; j < neg.Shape[axis]; j++ {
					coord[axis] = j
					acc = fold(acc, neg.At(coord))
				}
				alt.E[k] = acc
			}
			_ = first
			hasAlt = true
		}
		T := d.T.Type
		fn := reflect.MakeFunc(reflect.FuncOf([]reflect.Type{T, T}, []reflect.Type{T}, false), func(args []reflect.Value) []reflect.Value {
			r, _ := binop(opName, args[0].Interface(), args[1].Interface())
			return []reflect.Value{reflect.ValueOf(r)}
		}).Interface()
		pan := try(func() { res, lerr = t.Reduce(fn, axis, zeroOf(d)) })
		if pan != "" {
			if !contiguous {
				rec.Class("panic-refusal:non-contiguous")
				return A.unchanged("the operand of a refused reduction")
			}
			return desc + " panicked: " + pan
		}
	}
	if lerr != nil {
		// a refusal is allowed for unsupported layouts, never for a contiguous row-major operand
		if !contiguous {
			rec.Class("refusal:non-contiguous")
			return A.unchanged("the operand of a refused reduction")
		}
		return desc + " refused a contiguous operand: " + lerr.Error()
	}
	rec.Class("computed")
	if res == nil || reflect.ValueOf(res).IsNil() {
		return desc + " returned nil without an error"
	}
	if m := compareAt(res, want, eqVal); m != "" {
		if !hasAlt || compareAt(res, alt, eqVal) != "" {
			return desc + ": " + m
		}
	}
	c08Last = arrOf(res)
	if len(want.Shape) == 0 && !res.Shape().IsScalar() && res.Shape().TotalSize() != 1 {
		return desc + fmt.Sprintf(": all axes reduced but the result has shape %v", res.Shape())
	}
	if m := A.unchanged("the operand"); m != "" {
		return desc + ": " + m
	}
	// the result is a new tensor: overwriting it does not reach the operand
	if rd, ok := res.(*tensor.Dense); ok && rd != t && !rd.Shape().IsScalar() {
		rdt := dtInt
		if c.Op != "Argmax" && c.Op != "Argmin" {
			rdt = d
		}
		for k, cc := range coordsOf(want.Shape) {
			nv := conv(rdt, 100+int64(k%20))
			if eqVal(nv, want.E[k]) {
				nv = conv(rdt, 99)
			}
			var serr error
			if pan := try(func() { serr = rd.SetAt(nv, cc...) }); pan != "" || serr != nil {
				return desc + fmt.Sprintf(": writing the result at %v failed: %v %v", cc, pan, serr)
			}
		}
		if m := A.unchanged("the operand"); m != "" {
			return desc + ": after overwriting the result: " + m
		}
	}
	return ""
}

// ---------------------------------------------------------------- layout invariance, bit for bit

// C08Layout: "its layout does not affect the result". The same logical array is reduced along the same
// logical axis three ways - as given, as a lazily transposed tensor, and as the transposed array stored
// contiguously (so that the axis sits at another position and another kernel does the folding) - over
// values whose floating-point sums depend on the order and precision of the accumulation. The results
// must agree exactly; a refusal of the lazily transposed operand is accepted.
type C08Layout struct {
	Op   string `json:"op"` // Sum | Max | Min
	DT   string `json:"dt"`
	A    Opnd   `json:"a"`
	Axis int    `json:"axis"`
}

func init() { register("C08.layoutinv", func() Case { return &C08Layout{} }) }

func (c *C08Layout) NTKey() string {
	if c.A.Shape[c.Axis] < 2 {
		return ""
	}
	return fmt.Sprintf("%s|%s|%v|%d|%v", c.Op, c.DT, c.A.Shape, c.Axis, c.A.Codes)
}

func (c *C08Layout) Run() string {
	d := dtByName(c.DT)
	arr := c.A.arr(d)
	rank := len(arr.Shape)
	rev := revPerm(rank)
	reduce := func(t *tensor.Dense, axis int) (r tensor.Tensor, err error, pan string) {
		pan = try(func() {
			switch c.Op {
			case "Sum":
				r, err = t.Sum(axis)
			case "Max":
				r, err = t.Max(axis)
			default:
				r, err = t.Min(axis)
			}
		})
		return
	}
	desc := fmt.Sprintf("%s(%s) along axis %d of shape %v values %s", c.Op, c.DT, c.Axis, arr.Shape, fmtVals(arr.E))
	plain, err := Build(arr, Layout{Root: "rm"}, nil)
	if err != nil {
		return inconclusive
	}
	r1, e1, p1 := reduce(plain.T, c.Axis)
	if p1 != "" || e1 != nil {
		return desc + fmt.Sprintf(": contiguous operand: %v %v", p1, e1)
	}
	base := arrOf(r1)
	// the transposed array, stored contiguously: the axis moves to position rank-1-axis
	tarr := arr.Permute(rev)
	tb, err := Build(tarr, Layout{Root: "rm"}, nil)
	if err != nil {
		return inconclusive
	}
	r2, e2, p2 := reduce(tb.T, rank-1-c.Axis)
	if p2 != "" || e2 != nil {
		return desc + fmt.Sprintf(": transposed array stored contiguously: %v %v", p2, e2)
	}
	got2 := arrOf(r2)
	if len(got2.Shape) > 1 {
		got2 = got2.Permute(revPerm(len(got2.Shape)))
	}
	if len(got2.E) != len(base.E) {
		return desc + fmt.Sprintf(": result sizes differ between layouts: %v vs %v", base.Shape, got2.Shape)
	}
	for k := range base.E {
		if !eqVal(base.E[k], got2.E[k]) {
			return desc + fmt.Sprintf(": the layout affects the result: element %d is %s for the array as given and %s for its transpose stored contiguously (reduced along the corresponding axis)", k, fmtVal(base.E[k]), fmtVal(got2.E[k]))
		}
	}
	// the transposed array, lazily transposed back: the same logical array through strides
	lb, err := Build(arr, Layout{Root: "rm", Steps: []LStep{{Op: "T", Perm: rev}}}, nil)
	if err == nil {
		r3, e3, p3 := reduce(lb.T, c.Axis)
		if p3 == "" && e3 == nil {
			rec.Class("lazyT:computed")
			got3 := arrOf(r3)
			for k := range base.E {
				if k >= len(got3.E) || !eqVal(base.E[k], got3.E[k]) {
					return desc + fmt.Sprintf(": the layout affects the result: element %d is %s for the contiguous array and differs for the lazily transposed one (%s)", k, fmtVal(base.E[k]), fmtVals(got3.E))
				}
			}
		} else {
			rec.Class("lazyT:refused")
		}
	}
	return ""
}

// inF27: all-axes Sum/Max/Min of an owning tensor whose storage has gaps (a
// Clone() of a non-contiguous view).
func inF27(c *C08Case) bool { return false }

func genAxesSubset(rt *rapid.T, rank int) []int {
	var axes []int
	for i := 0; i < rank; i++ {
		if rapid.Bool().Draw(rt, "pick") {
			axes = append(axes, i)
		}
	}
	if len(axes) == 0 {
		axes = []int{rapid.IntRange(0, rank-1).Draw(rt, "one")}
	}
	if len(axes) > 1 {
		axes = rapid.Permutation(axes).Draw(rt, "order")
	}
	return axes
}

var c08Layouts = []string{"contig", "lazyT", "sliced", "stepsliced", "materialized", "clonedview", "slicedT", "physT", "Tsliced", "leadsliced", "picked"}

func TestC08(t *testing.T) {
	sumDTs := append(append([]DT{}, ordNumDTs...), dtC64, dtC128)
	// long axes: whatever the kernels do in blocks, or count in narrow integers, shows only beyond small sizes
	for _, op := range []string{"Sum", "Max", "Min", "Argmax", "Argmin"} {
		for _, d := range ordNumDTs {
			op, d := op, d
			cell(t, "C08", "C08.reduce", "long/"+op+"/"+d.Name, nCases(3, 40), func(rt *rapid.T) Case {
				n := rapid.SampledFrom([]int{255, 256, 257, 290, 511, 513, 1023, 1024, 1025, 1500, 2049, 4100}).Draw(rt, "n")
				shape := rapid.SampledFrom([][]int{{n}, {2, n}, {n, 2}, {3, n, 1}, {1, n}, {2, 3, n}, {2, n, 3}}).Draw(rt, "shape")
				if len(shape) == 3 && shape[0] == 2 && n > 600 {
					n = 130 + n%170 // rank 3: a long axis of a few hundred entries is enough
					for i := range shape {
						if shape[i] > 3 {
							shape[i] = n
						}
					}
				}
				c := &C08Case{Op: op, DT: d.Name, Via: rapid.SampledFrom([]string{"pkg", "method"}).Draw(rt, "via")}
				c.A = genOpnd(rt, shape, rapid.SampledFrom([]string{"contig", "contig", "lazyT", "materialized"}).Draw(rt, "lk"), -3, 5, 0, "a")
				// the extreme (for the arg-reductions: its FIRST occurrence) lies deep inside the long axis
				pos := rapid.IntRange(n/2, n-1).Draw(rt, "pos")
				for i := range c.A.Codes {
					c.A.Codes[i] = 1 + int64(i%3)
				}
				ext := int64(9)
				if op == "Min" || op == "Argmin" {
					ext = 0
				}
				stride := prod(shape) / n
				switch {
				case len(shape) > 1 && shape[0] == n: // (n,2): the long axis is axis 0
					c.A.Codes[pos*stride] = ext
				case len(shape) == 3 && shape[1] == n && shape[2] == 1:
					c.A.Codes[pos] = ext
				case len(shape) == 3 && shape[1] == n: // (2,n,3)
					c.A.Codes[pos*3+1] = ext
				default: // the long axis is the last one
					c.A.Codes[prod(shape)-n+pos] = ext
				}
				switch op {
				case "Sum", "Max", "Min":
					switch rapid.IntRange(0, 3).Draw(rt, "axesclass") {
					case 0:
						c.Axes = nil
					case 1:
						c.Axes = genAxesSubset(rt, len(shape)) // several axes, the long one possibly among them
					default:
						c.Axes = []int{rapid.IntRange(0, len(shape)-1).Draw(rt, "axis")}
					}
				default:
					if rapid.Bool().Draw(rt, "all") {
						c.Axes = []int{-1}
					} else {
						c.Axes = []int{rapid.IntRange(0, len(shape)-1).Draw(rt, "axis")}
					}
				}
				return c
			})
		}
	}
	// a few hundred elements behind a middle axis (kernels that tile the trailing block)
	for _, op := range []string{"Sum", "Max", "Min", "Reduce"} {
		for _, d := range []DT{dtF32, dtF64, dtInt16, dtUint8} {
			op, d := op, d
			cell(t, "C08", "C08.reduce", "wide-middle/"+op+"/"+d.Name, nCases(2, 30), func(rt *rapid.T) Case {
				shape := rapid.SampledFrom([][]int{{2, 3, 16, 17}, {2, 3, 16, 16}, {3, 2, 300}, {2, 4, 257}, {2, 2, 5, 60}}).Draw(rt, "shape")
				c := &C08Case{Op: op, DT: d.Name, Via: "method"}
				c.A = genOpnd(rt, shape, rapid.SampledFrom([]string{"contig", "contig", "lazyT"}).Draw(rt, "lk"), 0, 3, 0, "a")
				c.Axes = []int{rapid.IntRange(0, len(shape)-2).Draw(rt, "axis")}
				if op != "Reduce" && rapid.Bool().Draw(rt, "two") {
					c.Axes = append(c.Axes, len(shape)-1)
				}
				return c
			})
		}
	}
	// the layout does not affect the result, bit for bit, over order- and precision-sensitive values
	for _, op := range []string{"Sum", "Max", "Min"} {
		for _, d := range []DT{dtF32, dtF64} {
			op, d := op, d
			cell(t, "C08", "C08.layoutinv", "layoutinv/"+op+"/"+d.Name, nCases(120, 4000), func(rt *rapid.T) Case {
				shape := genShapeMin2(rt, 2, 3, 4, "s")
				c := &C08Layout{Op: op, DT: d.Name, Axis: rapid.IntRange(0, len(shape)-1).Draw(rt, "axis")}
				c.A = Opnd{Shape: shape, Codes: genCodes(rt, prod(shape), -4, 8, 60, "v")}
				if op != "Sum" {
					// the order of a NaN among the folded values is not defined for Max/Min (comparisons with NaN are unordered)
					for i, code := range c.A.Codes {
						if isNaNVal(decode(d, code)) {
							c.A.Codes[i] = 5
						}
					}
				}
				return c
			})
		}
	}
	for _, op := range []string{"Sum", "Max", "Min", "Argmax", "Argmin", "Reduce", "ReduceSub"} {
		dts := ordNumDTs
		if op == "Sum" || op == "Reduce" || op == "ReduceSub" {
			dts = sumDTs
		}
		if op == "Argmax" || op == "Argmin" {
			dts = append(append([]DT{}, ordNumDTs...), dtStr) // strings have an order too
		}
		for _, d := range dts {
			for _, lk := range c08Layouts {
				op, d, lk := op, d, lk
				cell(t, "C08", "C08.reduce", op+"/"+d.Name+"/"+lk, nCases(10, 300), func(rt *rapid.T) Case {
					shape := genShapeMin2(rt, 1, 4, 4, "s")
					lo, hi := int64(-4), int64(8)
					if d.IsUnsigned() {
						lo = -2 // wraps to the top of the range: sums overflow
					}
					sp := 0
					if d.IsInt() {
						sp = 10
					}
					if d.Name == "string" {
						sp = 25
					}
					c := &C08Case{Op: op, DT: d.Name, Via: rapid.SampledFrom([]string{"pkg", "method"}).Draw(rt, "via")}
					c.A = genOpnd(rt, shape, lk, lo, hi, sp, "a")
					if (op == "Max" || op == "Min" || op == "Argmax" || op == "Argmin") && rapid.Bool().Draw(rt, "ties") {
						for i := range c.A.Codes {
							c.A.Codes[i] = c.A.Codes[i] % 3 // many ties
						}
					}
					switch op {
					case "Sum", "Max", "Min":
						switch rapid.IntRange(0, 5).Draw(rt, "axesclass") {
						case 0:
							c.Axes = nil // no axes given: everything
						case 1:
							c.Axes = iota(len(shape)) // all axes, in order
						default:
							c.Axes = genAxesSubset(rt, len(shape))
						}
					case "Argmax", "Argmin":
						if rapid.IntRange(0, 3).Draw(rt, "all") == 0 {
							c.Axes = []int{-1}
						} else {
							c.Axes = []int{rapid.IntRange(0, len(shape)-1).Draw(rt, "axis")}
						}
					case "Reduce", "ReduceSub":
						c.Axes = []int{rapid.IntRange(0, len(shape)-1).Draw(rt, "axis")}
						c.Via = "method"
					}
					return c
				})
			}
		}
	}
	// every non-empty subset of axes, every single axis
	for _, op := range []string{"Sum", "Max", "Argmax", "Argmin"} {
		op := op
		cell(t, "C08", "C08.allaxes", "all-subsets/"+op, nCases(6, 120), func(rt *rapid.T) Case {
			shape := genShapeMin2(rt, 2, 4, 3, "s")
			d := rapid.SampledFrom([]DT{dtInt32, dtF64, dtUint8, dtF32, dtInt64}).Draw(rt, "dt")
			lk := rapid.SampledFrom([]string{"contig", "lazyT", "sliced", "materialized"}).Draw(rt, "lk")
			return &C08AllAxes{Op: op, DT: d.Name, A: genOpnd(rt, shape, lk, -3, 6, 0, "a")}
		})
	}
}

// C08AllAxes runs every non-empty subset of axes (every single axis and all-axes for the arg-reductions).
type C08AllAxes struct {
	Op string `json:"op"`
	DT string `json:"dt"`
	A  Opnd   `json:"a"`
}

func init() { register("C08.allaxes", func() Case { return &C08AllAxes{} }) }

func (c *C08AllAxes) NTKey() string {
	return fmt.Sprintf("%s|%s|%v|%v", c.Op, c.DT, c.A.Shape, c.A.L)
}

func (c *C08AllAxes) Run() string {
	rank := len(c.A.Shape)
	var sets [][]int
	if c.Op == "Argmax" || c.Op == "Argmin" {
		sets = append(sets, []int{-1})
		for i := 0; i < rank; i++ {
			sets = append(sets, []int{i})
		}
	} else {
		for bits := 1; bits < 1<<uint(rank); bits++ {
			var s []int
			for i := 0; i < rank; i++ {
				if bits>>uint(i)&1 == 1 {
					s = append(s, i)
				}
			}
			sets = append(sets, s)
		}
	}
	for _, s := range sets {
		for _, via := range []string{"pkg", "method"} {
			if via == "pkg" && (c.Op == "Max" || c.Op == "Min") {
				continue
			}
			resetLib()
			rec.Eval()
			sub := &C08Case{Op: c.Op, DT: c.DT, A: c.A, Axes: s, Via: via}
			if msg := sub.Run(); msg != "" && msg != inconclusive {
				return msg
			}
		}
	}
	rec.ClassN("axis-sets", len(sets))
	return ""
}

var c08Last Arr
