package props

import (
	"testing"

	"gorgonia.org/tensor"
	"pgregory.net/rapid"
)

// C06 — elementwise arithmetic is coordinate-wise, exact and layout-blind.

func init() { register("EW", func() Case { return &EWCase{} }) }

func valueRange(d DT) (int64, int64) {
	if d.IsUnsigned() {
		return -3, 12 // negative codes wrap to values near the type's maximum
	}
	return -7, 9
}

func genArithCase(rt *rapid.T, prop, op string, d DT, form, via, mode string, layouts []string) *EWCase {
	shape := ewShape(rt)
	lo, hi := valueRange(d)
	cplxCodes = d.IsComplex() // complex operands get non-zero imaginary parts
	defer func() { cplxCodes = false }()
	c := &EWCase{Prop: prop, Fam: "arith", Op: op, DT: d.Name, Form: form, Via: via, Mode: mode}
	c.A = genOpnd(rt, shape, rapid.SampledFrom(layouts).Draw(rt, "la"), lo, hi, 15, "a")
	if form == "TT" {
		b := genOpnd(rt, shape, rapid.SampledFrom(layouts).Draw(rt, "lb"), lo, hi, 15, "b")
		c.B = &b
		if rapid.IntRange(0, 11).Draw(rt, "bsame") == 0 {
			same := c.A // the same tensor on both sides
			c.B, c.BSame = &same, true
		}
	} else {
		c.Scalar = genCodes(rt, 1, lo, hi, 15, "s")[0]
		c.ScT = via == "pkg" && rapid.IntRange(0, 3).Draw(rt, "sct") == 0
	}
	avoidF39(c)
	if inF25(c) {
		rec.Class("excluded:F25")
		if c.Form == "ST" && c.Mode != "unsafe" && c.Mode != "incr" {
			c.A.L = Layout{Root: "rm"}
		} else {
			c.Mode = "safe"
		}
	}
	c.SafeOpt = c.Mode == "safe" && rapid.IntRange(0, 5).Draw(rt, "safeopt") == 0
	return c
}

func TestC06(t *testing.T) {
	for _, op := range arithOps {
		for _, d := range numDTs {
			for _, form := range []string{"TT", "TS", "ST"} {
				for _, via := range []string{"pkg", "method"} {
					if via == "method" && (op == "MinBetween" || op == "MaxBetween") {
						continue
					}
					op, d, form, via := op, d, form, via
					cell(t, "C06", "EW", op+"/"+d.Name+"/"+form+"/"+via, nCases(40, 1500), func(rt *rapid.T) Case {
						return genArithCase(rt, "C06", op, d, form, via, "safe", c06LayoutKinds)
					})
				}
			}
		}
	}
	// one-element tensors of every rank: the kernels and the dispatch treat them specially
	for _, op := range arithOps {
		for _, form := range []string{"TT", "TS", "ST"} {
			op, form := op, form
			cell(t, "C06", "EW", "one-element/"+op+"/"+form, nCases(30, 600), func(rt *rapid.T) Case {
				var ok []DT
				for _, d := range numDTs {
					if opSupports("arith", op, d) {
						ok = append(ok, d)
					}
				}
				d := rapid.SampledFrom(ok).Draw(rt, "dt")
				via := rapid.SampledFrom([]string{"pkg", "method"}).Draw(rt, "via")
				if op == "MinBetween" || op == "MaxBetween" {
					via = "pkg"
				}
				shape := cloneInts(rapid.SampledFrom([][]int{{1}, {1, 1}, {1, 1, 1}, {1, 1, 1, 1}, {}}).Draw(rt, "shape"))
				lo, hi := valueRange(d)
				c := &EWCase{Prop: "C06", Fam: "arith", Op: op, DT: d.Name, Form: form, Via: via, Mode: "safe"}
				c.A = genOpnd(rt, shape, "contig", lo, hi, 15, "a")
				if form == "TT" {
					b := genOpnd(rt, shape, "contig", lo, hi, 15, "b")
					c.B = &b
				} else {
					c.Scalar = genCodes(rt, 1, lo, hi, 15, "s")[0]
				}
				avoidF39(c)
				return c
			})
		}
	}
	// refusals: mismatched shapes, mismatched element types, non-numeric element types
	for _, op := range arithOps {
		op := op
		cell(t, "C06", "EW", op+"/mismatch-shape", nCases(20, 400), func(rt *rapid.T) Case {
			d := rapid.SampledFrom(append(append([]DT{}, numDTs...), dtF64, dtF32, dtF64, dtF32)).Draw(rt, "dt")
			c := genArithCase(rt, "C06", op, d, "TT", rapid.SampledFrom([]string{"pkg", "method"}).Draw(rt, "via"), "safe", c06LayoutKinds)
			if op == "MinBetween" || op == "MaxBetween" {
				c.Via = "pkg"
			}
			shape := mismatchedShape(rt, c.A.Shape)
			// another shape with as many elements: the same dimensions in reverse
			if len(c.A.Shape) >= 2 && rapid.IntRange(0, 2).Draw(rt, "samesize") == 0 {
				rev := make([]int, len(c.A.Shape))
				for i, dd := range c.A.Shape {
					rev[len(rev)-1-i] = dd
				}
				if !tensor.Shape(rev).Eq(tensor.Shape(c.A.Shape)) {
					shape = rev
				}
			}
			// the specialised engines refuse what the standard engine refuses
			if (d.Name == "float64" || d.Name == "float32") && (op == "Add" || op == "Sub" || op == "Mul" || op == "Div") && rapid.Bool().Draw(rt, "eng") {
				c.Engine = map[string]string{"float64": "f64", "float32": "f32"}[d.Name]
			}
			b := genOpnd(rt, shape, "contig", -3, 9, 0, "b2")
			c.B = &b
			return c
		})
		cell(t, "C06", "EW", op+"/mismatch-dtype", nCases(6, 60), func(rt *rapid.T) Case {
			d := rapid.SampledFrom(numDTs).Draw(rt, "dt")
			form := rapid.SampledFrom([]string{"TT", "TS", "ST"}).Draw(rt, "form")
			c := genArithCase(rt, "C06", op, d, form, "pkg", "safe", c06LayoutKinds)
			od := rapid.SampledFrom(numDTs).Draw(rt, "odt")
			if od.Name == d.Name {
				od = numDTs[(indexOfDT(d)+1)%len(numDTs)]
			}
			c.BDT = od.Name
			return c
		})
		for _, d := range []DT{dtBool, dtStr, dtUintptr, dtUnsafe} {
			d := d
			nc, lays := nCases(2, 20), []string{"contig", "sliced"}
			if opSupports("arith", op, d) { // strings have an order: the elementwise minimum and maximum are computed
				nc, lays = nCases(30, 900), c06LayoutKinds
			}
			cell(t, "C06", "EW", op+"/nonnumeric/"+d.Name, nc, func(rt *rapid.T) Case {
				form := rapid.SampledFrom([]string{"TT", "TS", "ST"}).Draw(rt, "form")
				return genArithCase(rt, "C06", op, d, form, "pkg", "safe", lays)
			})
		}
	}
}

// mismatchedShape: another shape with a different number of elements: an unrelated one, or a near miss
// (one element with a rank, one axis cut to length one as if to be broadcast, an axis more or less).
func mismatchedShape(rt *rapid.T, as []int) []int {
	shape := ewShape(rt)
	switch rapid.IntRange(0, 5).Draw(rt, "nearmiss") {
	case 0:
		shape = cloneInts(rapid.SampledFrom([][]int{{1}, {1, 1}, {1, 1, 1}}).Draw(rt, "one"))
	case 1:
		if len(as) > 0 {
			shape = cloneInts(as)
			shape[rapid.IntRange(0, len(as)-1).Draw(rt, "cut")] = 1
		}
	case 2:
		if len(as) > 1 {
			i := rapid.IntRange(0, len(as)-1).Draw(rt, "drop")
			shape = append(cloneInts(as[:i]), as[i+1:]...)
		}
	case 3:
		shape = append(cloneInts(as), 2)
	}
	if prod(shape) == prod(as) {
		shape = append([]int{2}, shape...)
	}
	return shape
}

func indexOfDT(d DT) int {
	for i, x := range numDTs {
		if x.Name == d.Name {
			return i
		}
	}
	return 0
}
