package props

import (
	"fmt"
	"reflect"
	"testing"

	"gorgonia.org/tensor"
	"pgregory.net/rapid"
)

// C10 — concatenation, stacking and repetition assemble exactly the operands' elements.

type C10Case struct {
	Op      string `json:"op"` // Concat | Stack | Hstack | Vstack | Repeat | RepeatReuse
	DT      string `json:"dt"`
	Ops     []Opnd `json:"operands"`
	Axis    int    `json:"axis"` // Repeat: -1 = AllAxes
	Repeats []int  `json:"repeats,omitempty"`
	Via     string `json:"via"` // method | pkg
	// AliasT[i]: operand i is not built on its own but is a lazily transposed whole view of operand i-1
	// (both square matrices): the same storage, the same first element, other strides
	AliasT []bool `json:"aliasT,omitempty"`
}

func init() { register("C10.assemble", func() Case { return &C10Case{} }) }

func (c *C10Case) NTKey() string {
	nc := false
	for _, o := range c.Ops {
		if !o.L.IsContig() {
			nc = true
		}
	}
	inner := c.Axis > 0
	switch c.Op {
	case "Repeat", "RepeatReuse":
		if !(nc || inner) {
			return ""
		}
	default:
		if len(c.Ops) < 2 || !(nc || inner) {
			return ""
		}
	}
	var ls []string
	for _, o := range c.Ops {
		ls = append(ls, fmt.Sprintf("%v%v", o.Shape, o.L))
	}
	return fmt.Sprintf("%s|%s|%v|%d|%v|%s|%v", c.Op, c.DT, ls, c.Axis, c.Repeats, c.Via, c.AliasT)
}

// concatModel is NumPy's concatenate; ok=false when the operands do not fit.
func concatModel(arrs []Arr, axis int) (Arr, bool) {
	first := arrs[0]
	rank := len(first.Shape)
	if axis < 0 || axis >= rank {
		return Arr{}, false
	}
	out := cloneInts(first.Shape)
	out[axis] = 0
	for _, a := range arrs {
		if len(a.Shape) != rank {
			return Arr{}, false
		}
		for i := range a.Shape {
			if i != axis && a.Shape[i] != first.Shape[i] {
				return Arr{}, false
			}
		}
		out[axis] += a.Shape[axis]
	}
	res := Arr{DT: first.DT, Shape: out, E: make([]interface{}, prod(out))}
	off := 0
	for _, a := range arrs {
		for k, cc := range coordsOf(a.Shape) {
			dc := cloneIntsNN(cc)
			dc[axis] += off
			res.E[flatIdx(out, dc)] = a.E[k]
		}
		off += a.Shape[axis]
	}
	return res, true
}

// stackModel is NumPy's stack.
func stackModel(arrs []Arr, axis int) (Arr, bool) {
	first := arrs[0]
	rank := len(first.Shape)
	if axis < 0 || axis > rank {
		return Arr{}, false
	}
	for _, a := range arrs {
		if !eqInts(a.Shape, first.Shape) {
			return Arr{}, false
		}
	}
	out := append(append(append([]int{}, first.Shape[:axis]...), len(arrs)), first.Shape[axis:]...)
	res := Arr{DT: first.DT, Shape: out, E: make([]interface{}, prod(out))}
	for i, a := range arrs {
		for k, cc := range coordsOf(a.Shape) {
			dc := append(append(append([]int{}, cc[:axis]...), i), cc[axis:]...)
			res.E[flatIdx(out, dc)] = a.E[k]
		}
	}
	return res, true
}

// repeatModel is NumPy's repeat (axis -1: flattened).
func repeatModel(a Arr, axis int, reps []int) (Arr, bool) {
	if axis == -1 {
		a = Arr{DT: a.DT, Shape: []int{len(a.E)}, E: a.E}
		axis = 0
	}
	if axis < 0 || axis >= len(a.Shape) {
		return Arr{}, false
	}
	n := a.Shape[axis]
	var per []int
	switch {
	case len(reps) == 1:
		per = make([]int, n)
		for i := range per {
			per[i] = reps[0]
		}
	case len(reps) == n:
		per = reps
	default:
		return Arr{}, false
	}
	var srcIdx []int
	for i, r := range per {
		if r < 0 {
			return Arr{}, false
		}
		for j := 0; j < r; j++ {
			srcIdx = append(srcIdx, i)
		}
	}
	out := cloneInts(a.Shape)
	out[axis] = len(srcIdx)
	res := Arr{DT: a.DT, Shape: out, E: make([]interface{}, prod(out))}
	for k, cc := range coordsOf(out) {
		sc := cloneIntsNN(cc)
		sc[axis] = srcIdx[cc[axis]]
		res.E[k] = a.At(sc)
	}
	return res, true
}

func (c *C10Case) Run() string {
	d := dtByName(c.DT)
	var bs []*opndB
	var arrs []Arr
	var ts []*tensor.Dense
	for i := range c.Ops {
		if i > 0 && i < len(c.AliasT) && c.AliasT[i] && len(arrs[i-1].Shape) == 2 && arrs[i-1].Shape[0] == arrs[i-1].Shape[1] && eqInts(c.Ops[i].Shape, arrs[i-1].Shape) {
			v, err := ts[i-1].Slice()
			if err != nil {
				return inconclusive
			}
			vd := v.(*tensor.Dense)
			if err := vd.T(); err != nil {
				return inconclusive
			}
			arrs = append(arrs, arrs[i-1].Permute([]int{1, 0}))
			ts = append(ts, vd)
			rec.Class("operand:transposed-view-of-the-previous-one")
			continue
		}
		b, msg := buildOpnd(&c.Ops[i], d)
		if msg != "" {
			return msg
		}
		bs = append(bs, b)
		arrs = append(arrs, b.arr)
		ts = append(ts, b.b.T)
		rec.Class("layout:" + c.Ops[i].L.Kind())
	}
	var want Arr
	var fits bool
	switch c.Op {
	case "Concat":
		want, fits = concatModel(arrs, c.Axis)
	case "Hstack":
		ax := 1
		if len(arrs[0].Shape) == 1 {
			ax = 0
		}
		want, fits = concatModel(arrs, ax)
	case "Vstack":
		want, fits = concatModel(arrs, 0)
		if len(arrs[0].Shape) < 2 {
			fits = false
		}
	case "Stack":
		want, fits = stackModel(arrs, c.Axis)
	case "Repeat", "RepeatReuse":
		want, fits = repeatModel(arrs[0], c.Axis, c.Repeats)
	}
	desc := fmt.Sprintf("%s(%s via %s axis %d repeats %v) operands %s", c.Op, c.DT, c.Via, c.Axis, c.Repeats, c.NTKeyOps())
	var res tensor.Tensor
	var lerr error
	var reuse *tensor.Dense
	reps := cloneInts(c.Repeats)
	pan := try(func() {
		axis := c.Axis
		switch c.Op {
		case "Concat":
			if c.Via == "pkg" {
				res, lerr = tensor.Concat(axis, ts[0], toTensors(ts[1:])...)
			} else {
				res, lerr = ts[0].Concat(axis, ts[1:]...)
			}
		case "Hstack":
			res, lerr = ts[0].Hstack(ts[1:]...)
		case "Vstack":
			res, lerr = ts[0].Vstack(ts[1:]...)
		case "Stack":
			if c.Via == "pkg" {
				res, lerr = tensor.Stack(axis, ts[0], toTensors(ts[1:])...)
			} else {
				res, lerr = ts[0].Stack(axis, ts[1:]...)
			}
		case "Repeat":
			if axis == -1 {
				axis = tensor.AllAxes
			}
			if c.Via == "pkg" {
				res, lerr = tensor.Repeat(ts[0], axis, reps...)
			} else {
				res, lerr = ts[0].Repeat(axis, reps...)
			}
		case "RepeatReuse":
			if axis == -1 {
				axis = tensor.AllAxes
			}
			shape := []int{1}
			if fits {
				shape = want.Shape
			}
			reuse = tensor.New(tensor.Of(d.T), tensor.WithShape(shape...))
			res, lerr = tensor.RepeatReuse(ts[0], reuse, axis, reps...)
		}
	})
	unchanged := func() string {
		for i, b := range bs {
			if m := b.unchanged(fmt.Sprintf("operand %d", i)); m != "" {
				return m
			}
		}
		return ""
	}
	if pan != "" {
		if !fits {
			return desc + ": operands that do not fit must be refused with an error, not a panic: " + pan
		}
		return desc + " panicked: " + pan
	}
	if !fits {
		rec.Class("unfit")
		if lerr == nil {
			return desc + fmt.Sprintf(": operands do not fit but a result of shape %v was returned", shapeOf(res))
		}
		return unchanged()
	}
	if lerr != nil {
		return desc + " refused fitting operands: " + lerr.Error()
	}
	if res == nil || reflect.ValueOf(res).IsNil() {
		return desc + " returned nil without an error"
	}
	rec.Class("computed")
	if prod(want.Shape) == 0 {
		return "" // every count zero: no array to compare
	}
	if m := compareAt(res, want, bitEqVal); m != "" {
		return desc + ": " + m
	}
	if m := unchanged(); m != "" {
		return desc + ": " + m
	}
	isOperand := false
	if rd, ok := res.(*tensor.Dense); ok {
		for _, t := range ts {
			if rd == t {
				isOperand = true
				if len(c.Ops) > 1 {
					return desc + ": returned one of its operands"
				}
			}
		}
	}
	// the result is a new array: overwriting it leaves the operands as they were
	if rd, ok := res.(*tensor.Dense); ok && !isOperand && d.Name != "unsafe.Pointer" {
		for k, cc := range coordsOf(want.Shape) {
			nv := conv(d, 200+int64(k%20))
			if d.Name == "bool" {
				nv = !(want.E[k].(bool))
			} else if eqVal(nv, want.E[k]) {
				nv = conv(d, 230)
			}
			var serr error
			if pan := try(func() { serr = rd.SetAt(nv, cc...) }); pan != "" || serr != nil {
				return desc + fmt.Sprintf(": writing the result at %v failed: %v %v", cc, pan, serr)
			}
		}
		if m := unchanged(); m != "" {
			return desc + ": after overwriting the result: " + m
		}
	}
	return ""
}

func (c *C10Case) NTKeyOps() string {
	s := ""
	for _, o := range c.Ops {
		s += fmt.Sprintf("%v%v ", o.Shape, o.L)
	}
	return s
}

func toTensors(ts []*tensor.Dense) []tensor.Tensor {
	out := make([]tensor.Tensor, len(ts))
	for i, t := range ts {
		out[i] = t
	}
	return out
}

var c10DTs = []DT{dtInt8, dtBool, dtInt16, dtF32, dtF64, dtC128, dtStr, dtInt, dtInt32, dtInt64, dtUint, dtUint8, dtUint16, dtUint32, dtUint64, dtC64, dtUintptr, dtUnsafe, dtRec24, dtArr6}
var c10Layouts = []string{"contig", "lazyT", "sliced", "stepsliced", "materialized", "physT", "Tsliced", "slicedT", "leadsliced", "picked", "pickslice"}

func genC10(rt *rapid.T, op string, d DT, unfit bool) *C10Case {
	c := &C10Case{Op: op, DT: d.Name, Via: rapid.SampledFrom([]string{"method", "pkg"}).Draw(rt, "via")}
	lo, hi := int64(0), int64(40)
	switch op {
	case "Repeat", "RepeatReuse":
		shape := genShape(rt, 1, 4, 3, "s")
		c.Ops = []Opnd{genOpnd(rt, shape, rapid.SampledFrom(c10Layouts).Draw(rt, "l"), lo, hi, 0, "a")}
		if rapid.IntRange(0, 5).Draw(rt, "all") == 0 {
			c.Axis = -1
		} else {
			c.Axis = rapid.IntRange(0, len(shape)-1).Draw(rt, "axis")
		}
		n := prod(shape)
		if c.Axis >= 0 {
			n = shape[c.Axis]
		}
		// mostly small counts, now and then larger ones (bulk-copy paths work in blocks)
		maxRep := 3
		if rapid.IntRange(0, 3).Draw(rt, "bigrep") == 0 {
			maxRep = 17
		}
		if rapid.Bool().Draw(rt, "uniform") {
			c.Repeats = []int{rapid.IntRange(1, maxRep).Draw(rt, "rep")}
		} else {
			c.Repeats = make([]int, n)
			tot := 0
			for i := range c.Repeats {
				c.Repeats[i] = rapid.IntRange(0, maxRep).Draw(rt, "rep")
				tot += c.Repeats[i]
			}
			if tot == 0 {
				c.Repeats[0] = 1
			}
		}
		if rapid.IntRange(0, 4).Draw(rt, "masked") == 0 && len(shape) > 0 {
			// a masked operand is repeated by the general (not the bulk-copy) path; its elements are repeated all the same
			m := make([]bool, prod(shape))
			for i := range m {
				m[i] = rapid.Bool().Draw(rt, "m")
			}
			c.Ops[0].Mask = m
		}
		if unfit {
			c.Repeats = append(c.Repeats, 1, 2) // wrong number of counts
			if len(c.Repeats) == n {
				c.Repeats = append(c.Repeats, 1)
			}
		}
		return c
	}
	nops := rapid.IntRange(1, 4).Draw(rt, "nops")
	minRank := 1
	if op == "Vstack" {
		minRank = 2
	}
	shape := genShape(rt, minRank, 4, 3, "s")
	rank := len(shape)
	axis := 0
	switch op {
	case "Concat":
		axis = rapid.IntRange(0, rank-1).Draw(rt, "axis")
	case "Stack":
		axis = rapid.IntRange(0, rank).Draw(rt, "axis")
	case "Hstack":
		axis = 1
		if rank == 1 {
			axis = 0
		}
	}
	c.Axis = axis
	for i := 0; i < nops; i++ {
		s := cloneInts(shape)
		if op != "Stack" {
			s[axis] = rapid.IntRange(1, 3).Draw(rt, "len")
		}
		c.Ops = append(c.Ops, genOpnd(rt, s, rapid.SampledFrom(c10Layouts).Draw(rt, "l"), lo+int64(i)*40, hi+int64(i)*40, 0, fmt.Sprintf("o%d", i)))
	}
	if rapid.IntRange(0, 5).Draw(rt, "maskedops") == 0 {
		// masked operands: their elements are assembled all the same, and they keep their masks
		for i := range c.Ops {
			if rapid.Bool().Draw(rt, "maskthis") && len(c.Ops[i].Shape) > 0 && c.Ops[i].L.Final == "" {
				m := make([]bool, prod(c.Ops[i].Shape))
				for k := range m {
					m[k] = rapid.Bool().Draw(rt, "m")
				}
				c.Ops[i].Mask = m
			}
		}
	}
	if !unfit && rank == 2 && shape[0] == shape[1] && shape[0] >= 2 && len(c.Ops) >= 2 && rapid.IntRange(0, 2).Draw(rt, "alias") == 0 {
		// square operands: one of them is a lazily transposed view of its predecessor
		k := rapid.IntRange(1, len(c.Ops)-1).Draw(rt, "aliaswhich")
		if eqInts(c.Ops[k].Shape, c.Ops[k-1].Shape) && c.Ops[k-1].L.Final == "" {
			c.AliasT = make([]bool, len(c.Ops))
			c.AliasT[k] = true
		}
	}
	if unfit && len(c.Ops) >= 2 {
		o := &c.Ops[len(c.Ops)-1]
		switch rapid.IntRange(0, 3).Draw(rt, "unfitkind") {
		case 3: // the same dimensions in another order (same rank, same number of elements)
			if len(o.Shape) >= 2 {
				o.Shape[0], o.Shape[len(o.Shape)-1] = o.Shape[len(o.Shape)-1]+1, o.Shape[0]-1+1
				o.Shape[0], o.Shape[len(o.Shape)-1] = o.Shape[0]-1, o.Shape[len(o.Shape)-1]
				if o.Shape[0] == o.Shape[len(o.Shape)-1] { // a symmetric shape: make the sum equal but the shape different
					o.Shape[0]++
					if o.Shape[len(o.Shape)-1] > 1 {
						o.Shape[len(o.Shape)-1]--
					} else {
						o.Shape[0]++
					}
				}
			} else {
				o.Shape = append(o.Shape, 2)
			}
		case 0: // rank mismatch
			o.Shape = append(o.Shape, 2)
		case 1: // off-axis mismatch (for Stack: any axis)
			i := rapid.IntRange(0, len(o.Shape)-1).Draw(rt, "ax")
			if op != "Stack" && i == axis {
				if len(o.Shape) > 1 {
					i = (i + 1) % len(o.Shape)
				} else {
					o.Shape = append(o.Shape, 2)
				}
			}
			o.Shape[i] += 1
		case 2:
			o.Shape = append([]int{2}, o.Shape...)
		}
		o.Codes = fillCodes(o.Codes, prod(o.Shape))
		o.L = Layout{Root: "rm"}
	}
	return c
}

func TestC10(t *testing.T) {
	for _, op := range []string{"Concat", "Stack", "Hstack", "Vstack", "Repeat", "RepeatReuse"} {
		for _, d := range c10DTs {
			op, d := op, d
			cell(t, "C10", "C10.assemble", op+"/"+d.Name, nCases(60, 2500), func(rt *rapid.T) Case {
				return avoidC10Regions(genC10(rt, op, d, false))
			})
		}
		op := op
		cell(t, "C10", "C10.assemble", op+"/unfit", nCases(40, 800), func(rt *rapid.T) Case {
			return avoidC10Regions(genC10(rt, op, rapid.SampledFrom(c10DTs).Draw(rt, "dt"), true))
		})
	}
}

// inF20: Concat/Vstack/Hstack along axis 0 with a (1,n) operand that is a strided view.
func inF20(c *C10Case) int {
	if c.Op == "Repeat" || c.Op == "RepeatReuse" || c.Op == "Stack" {
		return -1
	}
	axis := c.Axis
	if c.Op == "Vstack" {
		axis = 0
	}
	if axis != 0 {
		return -1
	}
	for i, o := range c.Ops {
		if len(o.Shape) == 2 && o.Shape[0] == 1 && o.Shape[1] > 1 && !o.L.IsContig() {
			return i
		}
	}
	return -1
}

// inF32: Repeat whose source or result is a (1,n) row vector.
func inF32(c *C10Case) bool {
	if c.Op != "Repeat" && c.Op != "RepeatReuse" {
		return false
	}
	s := c.Ops[0].Shape
	if len(s) == 2 && s[0] == 1 && s[1] > 1 {
		return true
	}
	if want, ok := repeatModel(Arr{Shape: s, E: make([]interface{}, prod(s))}, c.Axis, c.Repeats); ok {
		w := want.Shape
		return len(w) == 2 && w[0] == 1 && w[1] > 1
	}
	return false
}

func avoidC10Regions(c *C10Case) *C10Case {
	for i := inF20(c); i >= 0; i = inF20(c) {
		rec.Class("excluded:F20")
		c.Ops[i].L = Layout{Root: "rm"}
	}
	if inF32(c) {
		rec.Class("excluded:F32")
		c.Ops[0].Shape = append([]int{2}, c.Ops[0].Shape[1:]...)
		c.Ops[0].Codes = fillCodes(c.Ops[0].Codes, prod(c.Ops[0].Shape))
		if c.Axis == 0 && len(c.Repeats) > 1 {
			c.Repeats = []int{1, 2}
		}
	}
	return c
}
