package props

import (
	"fmt"
	"os"
	"testing"

	"gorgonia.org/tensor"
	"pgregory.net/rapid"
)

// C03 — transposition is a pure permutation of axes.

type C03Step struct {
	Op    string `json:"op"` // T, Tdefault, UT, Transpose, Materialize, SafeT, RollAxis, pkgT, pkgTranspose
	Perm  []int  `json:"perm,omitempty"`
	Axis  int    `json:"axis,omitempty"`
	Start int    `json:"start,omitempty"`
	Safe  bool   `json:"safe,omitempty"`
}

type C03Case struct {
	DT    string    `json:"dt"`
	Shape []int     `json:"shape"`
	L     Layout    `json:"layout"`
	Prog  []C03Step `json:"prog"`
	Base  int64     `json:"base"`
}

func init() { register("C03.transpose", func() Case { return &C03Case{} }) }

func nonUnit(shape []int) int {
	n := 0
	for _, d := range shape {
		if d > 1 {
			n++
		}
	}
	return n
}

func (c *C03Case) NTKey() string {
	if nonUnit(c.Shape) < 2 {
		return ""
	}
	for _, st := range c.Prog {
		switch st.Op {
		case "T", "SafeT", "pkgT", "pkgTranspose":
			if !isIdentity(st.Perm) {
				return fmt.Sprintf("%s|%v|%v|%v", c.DT, c.Shape, c.L, c.Prog)
			}
		case "Tdefault", "RollAxis":
			return fmt.Sprintf("%s|%v|%v|%v", c.DT, c.Shape, c.L, c.Prog)
		}
	}
	return ""
}

// rollPerm is NumPy's rollaxis as a permutation (result axis i is source axis p[i]); nil = unchanged.
func rollPerm(n, axis, start int) []int {
	if axis < start {
		start--
	}
	if axis == start {
		return nil
	}
	var p []int
	for i := 0; i < n; i++ {
		if i != axis {
			p = append(p, i)
		}
	}
	p = append(p[:start], append([]int{axis}, p[start:]...)...)
	return p
}

// regions of open findings (see known_findings.json)
func c03InRegion(c *C03Case) string {
	return ""
}

func (c *C03Case) Run() string {
	d := dtByName(c.DT)
	arr := seqArr(d, c.Shape, c.Base)
	if d.Name == "bool" {
		for k := range arr.E {
			arr.E[k] = (k*k+k/3)&1 == 1
		}
	}
	b, err := Build(arr, c.L, nil)
	if err != nil {
		return inconclusive
	}
	rec.Class("source:" + c.L.Kind())
	t := b.T
	m := arr.Clone()
	var befores []Arr // possible states a UT may restore (empty: no lazy transpose pending)
	owning := len(c.L.Steps) == 0
	_ = c.L.IsCM()
	attached := true // t still shares storage with the built root
	// storageKnown: the model knows what "storage in logical order" means for t. It is
	// lost for safe copies of a tensor that had a lazy transpose pending (the copy
	// carries permuted strides but no record of them, so Transpose() on it is a no-op).
	storageKnown := true
	inView := map[int]bool{}
	for _, j := range b.Idx {
		inView[j] = true
	}
	frame := func(desc string) string {
		now := b.RootNow()
		for j := range now {
			if !inView[j] && !bitEqVal(now[j], b.RootE[j]) {
				return fmt.Sprintf("%s changed root element %d (outside the view) from %s to %s", desc, j, fmtVal(b.RootE[j]), fmtVal(now[j]))
			}
		}
		return ""
	}
	// the sources of safe copies live on: whatever happens to a copy later, the source still reads the
	// same and its pending transposition can still be undone
	type leftBehind struct {
		t       *tensor.Dense
		m       Arr
		befores []Arr
		at      int
	}
	var left []leftBehind
	for si, st := range c.Prog {
		desc := fmt.Sprintf("step %d %s(perm %v axis %d start %d safe %v) on shape %v [source %v, prog %v]", si, st.Op, st.Perm, st.Axis, st.Start, st.Safe, m.Shape, c.L, c.Prog[:si])
		rank := len(m.Shape)
		scalarEquiv := prod(m.Shape) == 1
		switch st.Op {
		case "T", "Tdefault", "RollAxis":
			p := st.Perm
			if st.Op == "Tdefault" {
				p = revPerm(rank)
			}
			if st.Op == "RollAxis" {
				if rank == 0 {
					continue
				}
				if st.Safe {
					goto safeT
				}
				p = rollPerm(rank, st.Axis, st.Start)
			}
			var lerr error
			pan := try(func() {
				switch st.Op {
				case "T":
					lerr = t.T(cloneIntsNN(p)...)
				case "Tdefault":
					lerr = t.T()
				case "RollAxis":
					var r *tensor.Dense
					r, lerr = t.RollAxis(st.Axis, st.Start, false)
					if lerr == nil && r != t {
						lerr = fmt.Errorf("RollAxis(unsafe) returned a different tensor")
					}
				}
			})
			if pan != "" {
				return desc + " panicked: " + pan
			}
			if lerr != nil {
				return desc + " refused: " + lerr.Error()
			}
			if p != nil && !isIdentity(p) && !scalarEquiv {
				nm := m.Permute(p)
				if len(befores) == 0 {
					befores = []Arr{m}
				} else {
					// a T on top of a pending T: the library may undo (if it is the reverse),
					// or resolve the pending one physically first
					befores = append([]Arr{m}, befores...)
					// if the composition is the identity the pending transpose may simply be undone
				}
				m = nm
				if len(befores) > 1 {
					// composition back to the original: no transpose need be pending any more
					if eqInts(befores[len(befores)-1].Shape, m.Shape) && arrEq(befores[len(befores)-1], m) {
						befores = append(befores, Arr{}) // marker: "nothing pending" is acceptable too
					}
				}
			}
		case "UT":
			pan := try(func() { t.UT() })
			if pan != "" {
				return desc + " panicked: " + pan
			}
			if len(befores) == 0 {
				// nothing pending: no change
			} else {
				// accept any candidate
				matched := false
				var msgs string
				for _, cand := range befores {
					if cand.E == nil { // nothing was pending
						cand = m
					}
					if msg := compareAt(t, cand, bitEqVal); msg == "" {
						m = cand
						matched = true
						break
					} else {
						msgs += " {" + msg + "}"
					}
				}
				if !matched {
					return desc + " did not restore the tensor before the lazy transpose:" + msgs
				}
				befores = nil
			}
		case "Transpose":
			pan := try(func() { t.Transpose() })
			if pan != "" {
				return desc + " panicked: " + pan
			}
			befores = nil
			if msg := compareAt(t, m, bitEqVal); msg != "" {
				return desc + ": logical elements changed: " + msg
			}
			if storageKnown && (owning || !attached) && !t.IsView() && rank > 0 {
				// storage is now in the logical order of the tensor
				raw := backingVals(t.Data())
				if len(raw) == len(m.E) {
					for k, cc := range coordsOf(m.Shape) {
						pos := k
						if t.DataOrder().IsColMajor() {
							pos = flatIdxCM(m.Shape, cc)
						}
						if !bitEqVal(raw[pos], m.E[k]) {
							return desc + fmt.Sprintf(": storage is not in logical order: Data()=%s, logical %s (colmajor=%v)", fmtVals(raw), fmtVals(m.E), t.DataOrder().IsColMajor())
						}
					}
				}
			}
		case "Materialize":
			var r tensor.Tensor
			pan := try(func() { r = t.Materialize() })
			if pan != "" {
				return desc + " panicked: " + pan
			}
			rd := r.(*tensor.Dense)
			if msg := compareAt(rd, m, bitEqVal); msg != "" {
				return desc + ": " + msg
			}
			if rd != t {
				if msg := noAlias(rd, t, m, d); msg != "" {
					return desc + ": " + msg
				}
				t = rd
				befores = nil
				attached = false
				storageKnown = true
			}
		case "SafeT", "pkgT", "pkgTranspose":
			goto safeT
		default:
			panic("HARNESS: unknown C03 op " + st.Op)
		}
		goto check
	safeT:
		{
			p := st.Perm
			if st.Op == "RollAxis" {
				p = rollPerm(rank, st.Axis, st.Start)
			}
			var r tensor.Tensor
			var lerr error
			pan := try(func() {
				switch st.Op {
				case "SafeT":
					r, lerr = t.SafeT(cloneIntsNN(p)...)
				case "pkgT":
					r, lerr = tensor.T(t, cloneIntsNN(p)...)
				case "pkgTranspose":
					r, lerr = tensor.Transpose(t, cloneIntsNN(p)...)
				case "RollAxis":
					r, lerr = t.RollAxis(st.Axis, st.Start, true)
				}
			})
			if pan != "" {
				return desc + " panicked: " + pan
			}
			if lerr != nil {
				return desc + " refused: " + lerr.Error()
			}
			// the source is unchanged
			if msg := compareAt(t, m, bitEqVal); msg != "" {
				return desc + " changed its source: " + msg
			}
			rd, ok := r.(*tensor.Dense)
			if !ok || rd == nil {
				return desc + fmt.Sprintf(" returned %T", r)
			}
			nm := m
			if p != nil && !scalarEquiv {
				nm = m.Permute(p)
			}
			if msg := compareAt(rd, nm, bitEqVal); msg != "" {
				return desc + ": result: " + msg
			}
			if rd == t {
				if p == nil || isIdentity(p) || scalarEquiv {
					goto check // a no-op may hand back the tensor itself (RollAxis documents it)
				}
				return desc + " returned its source"
			}
			if msg := noAlias(rd, t, m, d); msg != "" {
				return desc + ": " + msg
			}
			left = append(left, leftBehind{t, m, append([]Arr{}, befores...), si})
			t = rd
			attached = false
			if len(befores) > 0 && st.Op != "pkgTranspose" {
				storageKnown = false
			}
			switch {
			case st.Op == "pkgTranspose":
				befores = nil
			case p == nil || isIdentity(p) || scalarEquiv:
				// a faithful copy: whatever was pending on the source is pending on the copy
				// (older behaviour recorded the no-op itself: then UT changes nothing)
				befores = append(append([]Arr{}, befores...), Arr{})
			default:
				befores = []Arr{m}
			}
			m = nm
		}
	check:
		if msg := compareAt(t, m, bitEqVal); msg != "" {
			return desc + ": " + msg
		}
		if msg := derivedProbe(t, m); msg != "" {
			return desc + ": afterwards " + msg
		}
		if attached && t == b.T && len(m.E) > 0 && d.Name != "unsafe.Pointer" && len(m.Shape) > 0 {
			// the tensor is still the one that was built over the harness's storage: no transposition, lazy or
			// physical, detaches it - a write through it shows in exactly one element of that storage
			before := b.RootNow()
			k := len(m.E) - 1
			cc := coordsOf(m.Shape)[k]
			nv := conv(d, 249)
			if d.Name == "bool" {
				nv = !(m.E[k].(bool))
			} else if eqVal(nv, m.E[k]) {
				nv = conv(d, 248)
			}
			var serr error
			if pan := try(func() { serr = t.SetAt(nv, cc...) }); pan != "" || serr != nil {
				return desc + fmt.Sprintf(": SetAt(%v) afterwards failed: %v %v", cc, pan, serr)
			}
			changed := 0
			for j, v := range b.RootNow() {
				if !bitEqVal(v, before[j]) {
					changed++
				}
			}
			_ = t.SetAt(m.E[k], cc...)
			if changed != 1 {
				return desc + fmt.Sprintf(": afterwards a write through the tensor changed %d elements of the storage it was built over (expected exactly 1): it no longer aliases its source", changed)
			}
		}
		if attached {
			if msg := frame(desc); msg != "" {
				return msg
			}
		}
		for _, lb := range left {
			if msg := compareAt(lb.t, lb.m, bitEqVal); msg != "" {
				return desc + fmt.Sprintf(": the source of the safe copy made at step %d no longer reads the same: %s", lb.at, msg)
			}
		}
	}
	for _, lb := range left {
		if pan := try(func() { lb.t.UT() }); pan != "" {
			return fmt.Sprintf("UT() on the source of the safe copy made at step %d panicked: %s [prog %v]", lb.at, pan, c.Prog)
		}
		cands := append([]Arr{lb.m}, lb.befores...) // nothing pending, or any state a UT may restore
		ok := len(lb.befores) == 0 && compareAt(lb.t, lb.m, bitEqVal) == ""
		var msgs string
		for _, cand := range cands[1:] {
			if cand.E == nil {
				cand = lb.m
			}
			if msg := compareAt(lb.t, cand, bitEqVal); msg == "" {
				ok = true
				break
			} else {
				msgs += " {" + msg + "}"
			}
		}
		if !ok {
			return fmt.Sprintf("after the program, UT() on the source of the safe copy made at step %d did not restore it:%s [source %v, prog %v]", lb.at, msgs, c.L, c.Prog)
		}
	}
	return ""
}

func arrEq(a, b Arr) bool {
	if !eqInts(a.Shape, b.Shape) || len(a.E) != len(b.E) {
		return false
	}
	for i := range a.E {
		if !bitEqVal(a.E[i], b.E[i]) {
			return false
		}
	}
	return true
}

// noAlias checks behaviourally that cp shares no storage with src: a write to
// cp leaves src (logical content srcM) unchanged. cp is restored afterwards.
func noAlias(cp, src *tensor.Dense, srcM Arr, d DT) string {
	if cp.Shape().IsScalar() || len(srcM.E) == 0 || d.Name == "unsafe.Pointer" {
		return ""
	}
	coords := coordsOf([]int(cp.Shape()))
	for _, k := range []int{0, len(coords) - 1} {
		old, err := safeAt(cp, coords[k])
		if err != nil {
			return "copy cannot be read: " + err.Error()
		}
		nv := conv(d, 245)
		if d.Name == "bool" {
			nv = !(old.(bool))
		} else if eqVal(nv, old) {
			nv = conv(d, 246)
		}
		if err := cp.SetAt(nv, coords[k]...); err != nil {
			return "copy cannot be written: " + err.Error()
		}
		msg := compareAt(src, srcM, bitEqVal)
		_ = cp.SetAt(old, coords[k]...)
		if msg != "" {
			return "a write to the copy changed the source (shared storage): " + msg
		}
	}
	return ""
}

var c03DTs = []DT{dtInt8, dtBool, dtInt16, dtF32, dtF64, dtC128, dtStr, dtRec24, dtArr6}
var c03Layouts = []string{"contig", "sliced", "stepsliced", "cmraw", "cmconv", "leadsliced"}

func genC03Shape(rt *rapid.T) []int {
	switch rapid.IntRange(0, 7).Draw(rt, "shapeclass") {
	case 0:
		n := rapid.IntRange(2, 3).Draw(rt, "n")
		r := rapid.IntRange(2, 4).Draw(rt, "r")
		s := make([]int, r)
		for i := range s {
			s[i] = n
		}
		return s // cubes: equal dims
	case 1:
		return rapid.SampledFrom([][]int{{3}, {1, 3}, {3, 1}, {1, 1, 3}, {1, 3, 1}, {}, {1}, {1, 1}}).Draw(rt, "vec")
	}
	return genShape(rt, 1, 5, 3, "s")
}

// c03PhysicalRegion tells whether a program moves data physically (Transpose(),
// package Transpose, or a lazy transpose on top of a pending one, which the
// library resolves physically). Known findings F12 (column-major) and F13
// (non-contiguous views and their raw copies) live there, so for column-major
// and view sources such steps are excluded by construction and counted.
func c03Physical(op string, pending bool) bool {
	switch op {
	case "Transpose":
		return pending
	case "pkgTranspose":
		return true
	case "T", "Tdefault", "RollAxis":
		return pending
	}
	return false
}

func genC03Prog(rt *rapid.T, shape []int, n int, noPhysical string) []C03Step {
	var prog []C03Step
	cur := cloneInts(shape)
	pending := false
	detached := false
	copied := false
	for i := 0; i < n; i++ {
		rank := len(cur)
		op := rapid.SampledFrom([]string{"T", "T", "T", "Tdefault", "UT", "Transpose", "Transpose", "Materialize", "SafeT", "RollAxis", "pkgT", "pkgTranspose"}).Draw(rt, "op")
		if noPhysical != "" && c03Physical(op, pending) && !(noPhysical == "F13" && detached) {
			rec.Class("excluded:" + noPhysical)
			op = "UT"
		}
		if op == "Materialize" && !copied {
			detached = true // a compact copy of the view: physical transposition is fine from here on
		}
		if op == "SafeT" || op == "pkgT" || op == "RollAxis" {
			// a safe copy of a strided view owns storage with the view's gaps (it is no view: Materialize
			// hands it back as it is), so it stays inside the region
			copied = true
		}
		switch op {
		case "T", "Tdefault", "RollAxis", "SafeT", "pkgT":
			pending = true // conservatively
		case "UT", "Transpose", "Materialize", "pkgTranspose":
			pending = false
		}
		st := C03Step{Op: op}
		switch op {
		case "T", "SafeT", "pkgT", "pkgTranspose":
			if rank >= 2 && rapid.IntRange(0, 9).Draw(rt, "id") > 0 {
				st.Perm = genNonIdPerm(rt, rank, "perm")
			} else {
				st.Perm = iota(rank)
			}
		case "RollAxis":
			if rank == 0 {
				continue
			}
			st.Axis = rapid.IntRange(0, rank-1).Draw(rt, "axis")
			st.Start = rapid.IntRange(0, rank).Draw(rt, "start")
			st.Safe = rapid.Bool().Draw(rt, "safe")

		}
		prog = append(prog, st)
		// track the shape
		var p []int
		switch op {
		case "T", "SafeT", "pkgT", "pkgTranspose":
			p = st.Perm
		case "Tdefault":
			p = revPerm(rank)
		case "RollAxis":
			p = rollPerm(rank, st.Axis, st.Start)
		case "UT":
			// shape may change back; programs stay valid because perms are drawn per rank only
		}
		if p != nil && prod(cur) > 1 {
			ns := make([]int, rank)
			for i, ax := range p {
				ns[i] = cur[ax]
			}
			cur = ns
		}
	}
	return prog
}

func TestC03(t *testing.T) {
	if os.Getenv("VERIF_CONFIG") != "" && os.Getenv("VERIF_CONFIG") != "default" {
		t.Log("configuration", os.Getenv("VERIF_CONFIG"))
	}
	for _, d := range c03DTs {
		for _, lk := range c03Layouts {
			d, lk := d, lk
			cell(t, "C03", "C03.transpose", d.Name+"/"+lk, nCases(40, 1500), func(rt *rapid.T) Case {
				shape := genC03Shape(rt)
				n := rapid.IntRange(1, 4).Draw(rt, "len")
				l := genLayoutKind(rt, lk, len(shape), "l")
				region := ""
				if l.IsCM() {
					region = "F12"
				} else if len(l.Steps) > 0 && lk != "leadsliced" {
					region = "F13" // (a leading-axis cut has no gaps in its storage window: it lies outside the region)
				}
				return &C03Case{DT: d.Name, Shape: shape, L: l, Prog: genC03Prog(rt, shape, n, region), Base: rapid.Int64Range(0, 20).Draw(rt, "base")}
			})
		}
	}
	// every permutation of every rank <= 4 (and rank 5 in the thorough tier), single-step programs
	maxRank := 4
	if thorough() {
		maxRank = 5
	}
	// every ordered pair of permutations: a lazy transpose on top of a pending one
	for rank := 2; rank <= 3; rank++ {
		rank := rank
		cell(t, "C03", "C03.allperms", fmt.Sprintf("allpairs/T;T/rank%d", rank), nCases(3, 20), func(rt *rapid.T) Case {
			shape := make([]int, rank)
			for i := range shape {
				shape[i] = rapid.IntRange(2, 3).Draw(rt, "dim")
			}
			if rapid.Bool().Draw(rt, "cube") {
				for i := range shape {
					shape[i] = 2
				}
			}
			return &C03AllPerms{DT: rapid.SampledFrom([]string{"int16", "float64", "string"}).Draw(rt, "dt"), Shape: shape, Op: "T;T", L: Layout{Root: "rm"}}
		})
	}
	// larger tensors whose element counts sit around multiples of 64 (64k-1, 64k, 64k+1): the physical
	// transpositions keep per-element bookkeeping in machine words
	for _, op := range []string{"pkgTranspose", "T+Transpose"} {
		op := op
		cell(t, "C03", "C03.allperms", "allperms/"+op+"/word-boundaries", nCases(4, 60), func(rt *rapid.T) Case {
			return genWordBoundaryTranspose(rt, op)
		})
	}
	// matrices and rank-3 tensors with sides up to 9 (the in-place kernels follow permutation cycles whose
	// structure depends on the sides)
	for _, op := range []string{"pkgTranspose", "T+Transpose"} {
		op := op
		cell(t, "C03", "C03.allperms", "allperms/"+op+"/sides-to-9", nCases(8, 120), func(rt *rapid.T) Case {
			shape := []int{rapid.IntRange(2, 9).Draw(rt, "m"), rapid.IntRange(2, 9).Draw(rt, "n")}
			if rapid.IntRange(0, 3).Draw(rt, "r3") == 0 {
				shape = append(shape, rapid.IntRange(2, 5).Draw(rt, "k"))
			}
			return &C03AllPerms{DT: rapid.SampledFrom([]string{"int8", "int16", "float32", "float64", "complex128", "string", "rec24"}).Draw(rt, "dt"), Shape: shape, Op: op, L: Layout{Root: "rm"}}
		})
	}
	// the copying transpositions of strided views, vector-shaped ones included
	for _, op := range []string{"SafeT", "pkgTranspose", "T"} {
		op := op
		cell(t, "C03", "C03.allperms", "allperms/"+op+"/strided-views", nCases(20, 400), func(rt *rapid.T) Case {
			shape := rapid.SampledFrom([][]int{{4, 1}, {1, 4}, {3}, {3, 1, 1}, {1, 1, 3}, {2, 3}, {3, 2}, {2, 1, 3}, {2, 2, 2}}).Draw(rt, "shape")
			lk := rapid.SampledFrom([]string{"stepsliced", "stepsliced", "sliced", "Tsliced", "picked"}).Draw(rt, "lk")
			return &C03AllPerms{DT: rapid.SampledFrom([]string{"int8", "int16", "float64", "complex128", "string"}).Draw(rt, "dt"), Shape: cloneInts(shape), Op: op, L: genLayoutKind(rt, lk, len(shape), "l")}
		})
	}
	for _, op := range []string{"T", "SafeT", "pkgTranspose", "T+Transpose"} {
		for rank := 2; rank <= maxRank; rank++ {
			op, rank := op, rank
			cell(t, "C03", "C03.allperms", fmt.Sprintf("allperms/%s/rank%d", op, rank), nCases(2, 12), func(rt *rapid.T) Case {
				shape := make([]int, rank)
				for i := range shape {
					shape[i] = rapid.IntRange(1, 3).Draw(rt, "dim")
				}
				if rapid.Bool().Draw(rt, "cube") {
					for i := range shape {
						shape[i] = 2
					}
				}
				lk := rapid.SampledFrom([]string{"contig", "sliced", "cmraw"}).Draw(rt, "lk")
				// (package Transpose copies a view out before it moves anything: row-major views are outside F13)
				if (op == "T+Transpose" && lk != "contig") || (op == "pkgTranspose" && lk == "cmraw") {
					rec.Class("excluded:F12/F13")
					lk = "contig"
				}
				return &C03AllPerms{DT: rapid.SampledFrom([]string{"int8", "int16", "float32", "float64", "complex128", "string"}).Draw(rt, "dt"), Shape: shape, Op: op, L: genLayoutKind(rt, lk, rank, "l")}
			})
		}
	}
}

// C03AllPerms runs one operation with every permutation of the axes ("T;T": every ordered pair).
type C03AllPerms struct {
	DT    string `json:"dt"`
	Shape []int  `json:"shape"`
	Op    string `json:"op"`
	L     Layout `json:"layout"`
}

func init() { register("C03.allperms", func() Case { return &C03AllPerms{} }) }

func (c *C03AllPerms) NTKey() string {
	if nonUnit(c.Shape) < 2 {
		return ""
	}
	return fmt.Sprintf("%s|%v|%s|%v", c.DT, c.Shape, c.Op, c.L)
}

func (c *C03AllPerms) Run() string {
	n := 0
	if c.Op == "T;T" {
		perms := allPermsCached(len(c.Shape))
		for _, p := range perms {
			for _, q := range perms {
				sub := &C03Case{DT: c.DT, Shape: c.Shape, L: c.L, Prog: []C03Step{{Op: "T", Perm: p}, {Op: "T", Perm: q}, {Op: "UT"}}}
				resetLib()
				rec.Eval()
				if msg := sub.Run(); msg != "" && msg != inconclusive {
					return msg
				}
				n++
			}
		}
		rec.ClassN("permutation-pairs", n)
		return ""
	}
	for _, p := range allPermsCached(len(c.Shape)) {
		prog := []C03Step{{Op: c.Op, Perm: p}}
		if c.Op == "T+Transpose" {
			prog = []C03Step{{Op: "T", Perm: p}, {Op: "Transpose"}, {Op: "UT"}}
		}
		sub := &C03Case{DT: c.DT, Shape: c.Shape, L: c.L, Prog: prog}
		resetLib()
		rec.Eval()
		if msg := sub.Run(); msg != "" && msg != inconclusive {
			return msg
		}
		n++
	}
	rec.ClassN("permutations", n)
	return ""
}

// genWordBoundaryTranspose: a physical transposition of a tensor whose element count sits at 64k-1, 64k or 64k+1.
func genWordBoundaryTranspose(rt *rapid.T, op string) Case {
	total := rapid.SampledFrom([]int{63, 64, 65, 127, 128, 129, 191, 192, 193, 255, 256, 257, 321, 385, 513, 1025}).Draw(rt, "total")
	var shape []int
	rest := total
	for len(shape) < 2 && rest > 1 {
		var divs []int
		for dd := 2; dd < rest; dd++ {
			if rest%dd == 0 {
				divs = append(divs, dd)
			}
		}
		if len(divs) == 0 {
			break
		}
		dd := rapid.SampledFrom(divs).Draw(rt, "div")
		shape = append(shape, dd)
		rest /= dd
	}
	shape = append(shape, rest)
	if len(shape) == 1 {
		shape = []int{shape[0], 1} // a prime count: a column
	}
	return &C03AllPerms{DT: rapid.SampledFrom([]string{"int8", "int16", "float32", "float64", "complex128", "string"}).Draw(rt, "dt"), Shape: shape, Op: op, L: Layout{Root: "rm"}}
}
