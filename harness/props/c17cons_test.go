package props

import (
	"fmt"
	"testing"

	"gorgonia.org/tensor"
	"pgregory.net/rapid"
)

// C17Cons — the generated constructors are one definition instantiated per element type: Ones(dt, shape)
// holds the type's 1 at every coordinate; I(dt, r, c, k) holds 1 where column - row == k and 0 elsewhere
// (the documented pictures), for every numeric element type alike.
type C17Cons struct {
	Op    string `json:"op"` // Ones | I
	Shape []int  `json:"shape"`
	K     int    `json:"k"`
}

func init() { register("C17.cons", func() Case { return &C17Cons{} }) }

func (c *C17Cons) NTKey() string { return fmt.Sprintf("%s|%v|%d", c.Op, c.Shape, c.K) }

func (c *C17Cons) Run() string {
	dts := append([]DT{}, numDTs...)
	if c.Op == "Ones" {
		dts = append(dts, dtBool)
	}
	for _, d := range dts {
		desc := fmt.Sprintf("%s(%s, %v, k=%d)", c.Op, d.Name, c.Shape, c.K)
		var got *tensor.Dense
		if pan := try(func() {
			if c.Op == "Ones" {
				got = tensor.Ones(d.T, cloneInts(c.Shape)...)
			} else {
				got = tensor.I(d.T, c.Shape[0], c.Shape[1], c.K)
			}
		}); pan != "" {
			return desc + " panicked: " + pan
		}
		one, zero := conv(d, 1), conv(d, 0)
		if d.Name == "bool" {
			one, zero = true, false
		}
		want := Arr{DT: d, Shape: c.Shape, E: make([]interface{}, prod(c.Shape))}
		for k, cc := range coordsOf(c.Shape) {
			want.E[k] = one
			if c.Op == "I" && cc[1]-cc[0] != c.K {
				want.E[k] = zero
			}
		}
		if got.Dtype() != d.T {
			return desc + fmt.Sprintf(": element type %v", got.Dtype())
		}
		if !eqInts([]int(got.Shape()), c.Shape) && !(len(c.Shape) == 0 && got.IsScalar()) {
			return desc + fmt.Sprintf(": shape %v", got.Shape())
		}
		if m := compareAt(got, want, eqVal); m != "" {
			return desc + ": " + m
		}
		if m := derivedProbe(got, want); m != "" {
			return desc + ": " + m
		}
	}
	return ""
}

func c17ConsCells(t *testing.T) {
	cell(t, "C17", "C17.cons", "cons/Ones", nCases(20, 400), func(rt *rapid.T) Case {
		dirtyPools() // the constructors draw their tensors from the pool
		return &C17Cons{Op: "Ones", Shape: genShapeMin2(rt, 1, 4, 4, "s")}
	})
	cell(t, "C17", "C17.cons", "cons/I", nCases(40, 1200), func(rt *rapid.T) Case {
		r, cc := rapid.IntRange(1, 6).Draw(rt, "r"), rapid.IntRange(1, 6).Draw(rt, "c")
		return &C17Cons{Op: "I", Shape: []int{r, cc}, K: rapid.IntRange(-(r-1), cc-1).Draw(rt, "k")}
	})
}
