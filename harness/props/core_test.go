// Package props holds the property-based checks of /verif: a slow, obviously
// correct reference model of n-d arrays (this file and model_*.go), layout
// recipes that realise a logical array as a real *tensor.Dense in many memory
// layouts (layout.go), an evidence recorder (ev.go) and one test file per
// property (cXX_test.go).
package props

import (
	"fmt"
	"math"
	"reflect"
	"strconv"
	"unsafe"

	"gorgonia.org/tensor"
)

// ---------------------------------------------------------------- dtypes

// DT names an element type.
type DT struct {
	Name string
	T    tensor.Dtype
}

var (
	dtBool    = DT{"bool", tensor.Bool}
	dtInt     = DT{"int", tensor.Int}
	dtInt8    = DT{"int8", tensor.Int8}
	dtInt16   = DT{"int16", tensor.Int16}
	dtInt32   = DT{"int32", tensor.Int32}
	dtInt64   = DT{"int64", tensor.Int64}
	dtUint    = DT{"uint", tensor.Uint}
	dtUint8   = DT{"uint8", tensor.Uint8}
	dtUint16  = DT{"uint16", tensor.Uint16}
	dtUint32  = DT{"uint32", tensor.Uint32}
	dtUint64  = DT{"uint64", tensor.Uint64}
	dtF32     = DT{"float32", tensor.Float32}
	dtF64     = DT{"float64", tensor.Float64}
	dtC64     = DT{"complex64", tensor.Complex64}
	dtC128    = DT{"complex128", tensor.Complex128}
	dtStr     = DT{"string", tensor.String}
	dtUintptr = DT{"uintptr", tensor.Uintptr}
	dtUnsafe  = DT{"unsafe.Pointer", tensor.UnsafePointer}
)

// user-defined element types (the library's documented extension point): a 24-byte struct and a
// 6-byte array. They are stored and moved through the reflection branches of the library.
type rec24 struct {
	A int64
	B float64
	C int32
}
type arr6 [3]int16

var (
	dtRec24 = DT{"rec24", tensor.Dtype{Type: reflect.TypeOf(rec24{})}}
	dtArr6  = DT{"arr6", tensor.Dtype{Type: reflect.TypeOf(arr6{})}}
)
var extDTs = []DT{dtRec24, dtArr6}

var allDTs = []DT{dtBool, dtInt, dtInt8, dtInt16, dtInt32, dtInt64, dtUint, dtUint8, dtUint16, dtUint32, dtUint64,
	dtF32, dtF64, dtC64, dtC128, dtStr, dtUintptr, dtUnsafe}

// numDTs are the 14 numeric element types of C06.
var numDTs = []DT{dtInt, dtInt8, dtInt16, dtInt32, dtInt64, dtUint, dtUint8, dtUint16, dtUint32, dtUint64, dtF32, dtF64, dtC64, dtC128}

// ordDTs are the numeric types with an order (no complex).
var ordNumDTs = []DT{dtInt, dtInt8, dtInt16, dtInt32, dtInt64, dtUint, dtUint8, dtUint16, dtUint32, dtUint64, dtF32, dtF64}

var floatDTs = []DT{dtF32, dtF64}
var floatCplxDTs = []DT{dtF32, dtF64, dtC64, dtC128}

func dtByName(n string) DT {
	for _, d := range allDTs {
		if d.Name == n {
			return d
		}
	}
	for _, d := range extDTs {
		if d.Name == n {
			return d
		}
	}
	panic("HARNESS: unknown dtype " + n)
}

func (d DT) IsSigned() bool {
	switch d.Name {
	case "int", "int8", "int16", "int32", "int64":
		return true
	}
	return false
}
func (d DT) IsUnsigned() bool {
	switch d.Name {
	case "uint", "uint8", "uint16", "uint32", "uint64":
		return true
	}
	return false
}
func (d DT) IsInt() bool     { return d.IsSigned() || d.IsUnsigned() }
func (d DT) IsFloat() bool   { return d.Name == "float32" || d.Name == "float64" }
func (d DT) IsComplex() bool { return d.Name == "complex64" || d.Name == "complex128" }
func (d DT) IsNum() bool     { return d.IsInt() || d.IsFloat() || d.IsComplex() }
func (d DT) IsOrd() bool     { return d.IsInt() || d.IsFloat() || d.Name == "string" }
func (d DT) Size() int       { return int(d.T.Size()) }

var ptrAnchors [4096]byte

// conv converts a small integer code into a value of the element type. It is
// injective on [0,256) for every type except bool.
func conv(d DT, k int64) interface{} {
	switch d.Name {
	case "bool":
		return k&1 == 1
	case "int":
		return int(k)
	case "int8":
		return int8(k)
	case "int16":
		return int16(k)
	case "int32":
		return int32(k)
	case "int64":
		return int64(k)
	case "uint":
		return uint(k)
	case "uint8":
		return uint8(k)
	case "uint16":
		return uint16(k)
	case "uint32":
		return uint32(k)
	case "uint64":
		return uint64(k)
	case "float32":
		return float32(k)
	case "float64":
		return float64(k)
	case "complex64":
		return complex(float32(k), float32(0))
	case "complex128":
		return complex(float64(k), float64(0))
	case "string":
		return "s" + strconv.FormatInt(k, 10)
	case "uintptr":
		return uintptr(k)
	case "unsafe.Pointer":
		return unsafe.Pointer(&ptrAnchors[int(uint64(k)%4096)])
	case "rec24":
		return rec24{A: k, B: float64(k) + 0.5, C: int32(-k)}
	case "arr6":
		return arr6{int16(k), int16(k + 1000), int16(-k)}
	}
	panic("HARNESS: conv " + d.Name)
}

// specials is the per-type pool of awkward values (extremes, non-finite, ...).
func specials(d DT) []interface{} {
	switch d.Name {
	case "bool":
		return []interface{}{true, false}
	case "int":
		return []interface{}{int(math.MaxInt64), int(math.MinInt64), int(math.MaxInt64 - 1), int(math.MinInt64 + 1), int(1) << 32, int(-1) << 31}
	case "int8":
		return []interface{}{int8(127), int8(-128), int8(126), int8(-127), int8(64), int8(-64)}
	case "int16":
		return []interface{}{int16(32767), int16(-32768), int16(32766), int16(-32767), int16(256), int16(-256)}
	case "int32":
		return []interface{}{int32(math.MaxInt32), int32(math.MinInt32), int32(math.MaxInt32 - 1), int32(math.MinInt32 + 1), int32(65536), int32(-65536)}
	case "int64":
		return []interface{}{int64(math.MaxInt64), int64(math.MinInt64), int64(math.MaxInt64 - 1), int64(math.MinInt64 + 1), int64(1) << 32, int64(-1) << 31}
	case "uint":
		return []interface{}{uint(math.MaxUint64), uint(math.MaxUint64 - 1), uint(1) << 63, uint(1) << 32, uint(255), uint(256)}
	case "uint8":
		return []interface{}{uint8(255), uint8(254), uint8(128), uint8(127), uint8(16), uint8(200)}
	case "uint16":
		return []interface{}{uint16(65535), uint16(65534), uint16(32768), uint16(256), uint16(255), uint16(40000)}
	case "uint32":
		return []interface{}{uint32(math.MaxUint32), uint32(math.MaxUint32 - 1), uint32(1) << 31, uint32(65536), uint32(65535), uint32(3000000000)}
	case "uint64":
		return []interface{}{uint64(math.MaxUint64), uint64(math.MaxUint64 - 1), uint64(1) << 63, uint64(1) << 32, uint64(255), uint64(256)}
	case "float32":
		return []interface{}{float32(math.Inf(1)), float32(math.Inf(-1)), float32(math.NaN()), float32(math.Copysign(0, -1)), float32(math.MaxFloat32), float32(-math.MaxFloat32), float32(math.SmallestNonzeroFloat32), float32(0.5), float32(-1.5), float32(2.25), float32(1e10), float32(-3.75)}
	case "float64":
		return []interface{}{math.Inf(1), math.Inf(-1), math.NaN(), math.Copysign(0, -1), math.MaxFloat64, -math.MaxFloat64, math.SmallestNonzeroFloat64, 0.5, -1.5, 2.25, 1e100, -3.75}
	case "complex64":
		return []interface{}{complex64(complex(1, 1)), complex64(complex(0, -2)), complex64(complex(-1.5, 0.5)), complex64(complex(math.Inf(1), 0)), complex64(complex(math.NaN(), 1)), complex64(complex(3, -4)), complex64(complex(0, 1))}
	case "complex128":
		return []interface{}{complex(1, 1), complex(0, -2), complex(-1.5, 0.5), complex(math.Inf(1), 0), complex(math.NaN(), 1), complex(3, -4), complex(0, 1)}
	case "string":
		return []interface{}{"", "a", "b", "ab", "a,b", "q\"uote", "line\nbreak", " sp ", "ü", "Z"}
	case "uintptr":
		return []interface{}{uintptr(math.MaxUint64), uintptr(1) << 40}
	case "unsafe.Pointer":
		return []interface{}{unsafe.Pointer(nil)}
	case "rec24":
		return []interface{}{rec24{}, rec24{A: math.MaxInt64, B: math.Inf(1), C: math.MinInt32}}
	case "arr6":
		return []interface{}{arr6{}, arr6{32767, -32768, -1}}
	}
	panic("HARNESS: specials " + d.Name)
}

// decode turns a case-file code into a value: codes >= 1000 pick from the
// specials pool, everything else is a small integer.
// extraStrings: more awkward strings for the text formats (codes 3000+i; kept apart from the specials
// pool so that existing case files keep their meaning).
var extraStrings = []string{"#x", "#", "a#b", "x\ty", ";", "'", "\\", "a\rb", "0", "-0", "NaN", "1e5", " ", "\u00a0", "é,è"}

// moderate: magnitudes between the small integers and the extremes of the specials pool (codes 4000+i):
// where saturation fast paths, range reductions and overflow thresholds of the float routines sit.
var moderate = []float64{10.5, -10.5, 20, -20, 50, -50, 80, -80, 100, -100, 1000.25, -1000.25, 12345, -12345, 709.5, -709.5}

func decode(d DT, code int64) interface{} {
	if code >= 4000 {
		m := moderate[int(code-4000)%len(moderate)]
		switch d.Name {
		case "float32":
			return float32(m)
		case "float64":
			return m
		case "complex64":
			return complex(float32(m), 0)
		case "complex128":
			return complex(m, 0)
		}
		return conv(d, (code-4000)%8)
	}
	if code >= 3000 {
		if d.Name == "string" {
			return extraStrings[int(code-3000)%len(extraStrings)]
		}
		return conv(d, code-3000)
	}
	if code >= 2000 {
		// small complex integers re, im in [-3,3] (for other types: the real part)
		k := code - 2000
		re, im := k%7-3, (k/7)%7-3
		switch d.Name {
		case "complex64":
			return complex(float32(re), float32(im))
		case "complex128":
			return complex(float64(re), float64(im))
		}
		return conv(d, re)
	}
	if code >= 1000 {
		sp := specials(d)
		return sp[int(code-1000)%len(sp)]
	}
	return conv(d, code)
}

func decodeAll(d DT, codes []int64) []interface{} {
	r := make([]interface{}, len(codes))
	for i, c := range codes {
		r[i] = decode(d, c)
	}
	return r
}

// mkBacking builds a Go slice of the element type holding vals.
func mkBacking(d DT, vals []interface{}) interface{} {
	s := reflect.MakeSlice(reflect.SliceOf(d.T.Type), len(vals), len(vals))
	for i, v := range vals {
		s.Index(i).Set(reflect.ValueOf(v))
	}
	return s.Interface()
}

// backingVals reads a Go slice back into boxed values.
func backingVals(b interface{}) []interface{} {
	v := reflect.ValueOf(b)
	if v.Kind() != reflect.Slice {
		return []interface{}{b}
	}
	r := make([]interface{}, v.Len())
	for i := range r {
		r[i] = v.Index(i).Interface()
	}
	return r
}

// ---------------------------------------------------------------- value equality

func isNaNVal(a interface{}) bool {
	switch x := a.(type) {
	case float32:
		return x != x
	case float64:
		return x != x
	}
	return false
}

// eqVal is exact equality where any NaN equals any NaN (componentwise for complex).
func eqVal(a, b interface{}) bool {
	if a == nil || b == nil {
		return a == b
	}
	if reflect.TypeOf(a) != reflect.TypeOf(b) {
		return false
	}
	switch x := a.(type) {
	case float32:
		y := b.(float32)
		return x == y || (x != x && y != y)
	case float64:
		y := b.(float64)
		return x == y || (x != x && y != y)
	case complex64:
		y := b.(complex64)
		return eqVal(real(x), real(y)) && eqVal(imag(x), imag(y))
	case complex128:
		y := b.(complex128)
		return eqVal(real(x), real(y)) && eqVal(imag(x), imag(y))
	}
	return a == b
}

// bitEqVal is eqVal but also distinguishes -0 from +0 (used for data movement).
func bitEqVal(a, b interface{}) bool {
	if !eqVal(a, b) {
		return false
	}
	switch x := a.(type) {
	case float32:
		y := b.(float32)
		return x != x || math.Signbit(float64(x)) == math.Signbit(float64(y))
	case float64:
		y := b.(float64)
		return x != x || math.Signbit(x) == math.Signbit(y)
	}
	return true
}

func f64close(x, y float64, rel float64) bool {
	if x == y || (x != x && y != y) {
		return true
	}
	if math.IsInf(x, 0) || math.IsInf(y, 0) || x != x || y != y {
		return false
	}
	d := math.Abs(x - y)
	m := math.Max(math.Abs(x), math.Abs(y))
	return d <= rel*m || d <= 1e-300
}

// closeVal compares with a relative tolerance fitting the element type
// (ulps counts units of 2^-23 resp. 2^-52).
func closeVal(a, b interface{}, ulps float64) bool {
	if reflect.TypeOf(a) != reflect.TypeOf(b) {
		return false
	}
	switch x := a.(type) {
	case float32:
		return f64close(float64(x), float64(b.(float32)), ulps*1.2e-7) || (math.Abs(float64(x)) < 1e-37 && math.Abs(float64(b.(float32))) < 1e-37)
	case float64:
		return f64close(x, b.(float64), ulps*2.3e-16)
	case complex64:
		y := b.(complex64)
		return cclose(complex128(x), complex128(y), ulps*1.2e-7)
	case complex128:
		return cclose(x, b.(complex128), ulps*2.3e-16)
	}
	return eqVal(a, b)
}

func cclose(x, y complex128, rel float64) bool {
	if f64close(real(x), real(y), rel) && f64close(imag(x), imag(y), rel) {
		return true
	}
	// compare by modulus of the difference (a small component next to a large one)
	if cmplxIsFinite(x) && cmplxIsFinite(y) {
		d := math.Hypot(real(x)-real(y), imag(x)-imag(y))
		m := math.Max(math.Hypot(real(x), imag(x)), math.Hypot(real(y), imag(y)))
		return d <= rel*m
	}
	return false
}

func cmplxIsFinite(x complex128) bool {
	return !math.IsInf(real(x), 0) && !math.IsInf(imag(x), 0) && real(x) == real(x) && imag(x) == imag(x)
}

// ---------------------------------------------------------------- the reference array

// Arr is the reference n-d array: element type, shape and the elements in
// logical row-major order. Nothing else - no strides, offsets or order flag.
type Arr struct {
	DT    DT
	Shape []int
	E     []interface{}
}

func prod(s []int) int {
	p := 1
	for _, d := range s {
		p *= d
	}
	return p
}

func cloneInts(a []int) []int {
	if a == nil {
		return nil
	}
	return append([]int{}, a...)
}

func eqInts(a, b []int) bool {
	if len(a) != len(b) {
		return false
	}
	for i := range a {
		if a[i] != b[i] {
			return false
		}
	}
	return true
}

func mkArr(d DT, shape []int, codes []int64) Arr {
	n := prod(shape)
	if len(codes) < n {
		panic(fmt.Sprintf("HARNESS: mkArr needs %d codes, has %d", n, len(codes)))
	}
	return Arr{DT: d, Shape: cloneInts(shape), E: decodeAll(d, codes[:n])}
}

// seqArr has pairwise distinct elements base, base+1, ... (except for bool).
func seqArr(d DT, shape []int, base int64) Arr {
	n := prod(shape)
	e := make([]interface{}, n)
	for i := range e {
		e[i] = conv(d, base+int64(i))
	}
	return Arr{DT: d, Shape: cloneInts(shape), E: e}
}

func (a Arr) Clone() Arr {
	return Arr{DT: a.DT, Shape: cloneInts(a.Shape), E: append([]interface{}{}, a.E...)}
}

func (a Arr) Size() int { return len(a.E) }

// flatIdx is the row-major rank of coordinate c in shape s.
func flatIdx(s []int, c []int) int {
	idx := 0
	for i := range s {
		idx = idx*s[i] + c[i]
	}
	return idx
}

// flatIdxCM is the column-major rank of coordinate c in shape s.
func flatIdxCM(s []int, c []int) int {
	idx := 0
	for i := len(s) - 1; i >= 0; i-- {
		idx = idx*s[i] + c[i]
	}
	return idx
}

// coordsOf lists all coordinates of a shape in row-major order.
func coordsOf(s []int) [][]int {
	n := prod(s)
	out := make([][]int, 0, n)
	c := make([]int, len(s))
	for k := 0; k < n; k++ {
		out = append(out, cloneIntsNN(c))
		for i := len(s) - 1; i >= 0; i-- {
			c[i]++
			if c[i] < s[i] {
				break
			}
			c[i] = 0
		}
	}
	return out
}

func cloneIntsNN(a []int) []int {
	r := make([]int, len(a))
	copy(r, a)
	return r
}

func (a Arr) At(c []int) interface{} { return a.E[flatIdx(a.Shape, c)] }

// Permute returns the array with axes permuted: result axis i is source axis p[i].
func (a Arr) Permute(p []int) Arr {
	ns := make([]int, len(p))
	for i, ax := range p {
		ns[i] = a.Shape[ax]
	}
	r := Arr{DT: a.DT, Shape: ns, E: make([]interface{}, len(a.E))}
	src := make([]int, len(p))
	for k, c := range coordsOf(ns) {
		for i, ax := range p {
			src[ax] = c[i]
		}
		r.E[k] = a.E[flatIdx(a.Shape, src)]
	}
	return r
}

// Reshape keeps the row-major sequence.
func (a Arr) Reshape(s []int) Arr {
	return Arr{DT: a.DT, Shape: cloneInts(s), E: append([]interface{}{}, a.E...)}
}

// SpecM is one entry of a slice list in the model: Nil (whole axis), a single
// index (Index=true, Start) or a range.
type SpecM struct {
	Nil   bool
	Index bool
	Start int
	End   int
	Step  int
}

// sliceIdx computes, for a valid spec on an axis of length dim, the list of
// selected indices. ok=false when the statement of C02 says "rejected".
func (s SpecM) sel(dim int) (idx []int, ok bool) {
	if s.Nil {
		for i := 0; i < dim; i++ {
			idx = append(idx, i)
		}
		return idx, true
	}
	if s.Index {
		if s.Start < 0 || s.Start >= dim {
			return nil, false
		}
		return []int{s.Start}, true
	}
	if s.Start < 0 || s.End < 0 || s.Step < 0 {
		return nil, false
	}
	if s.Start >= dim {
		return nil, false
	}
	if s.End < s.Start {
		return nil, false
	}
	end := s.End
	if end > dim {
		end = dim
	}
	if s.Step == 0 {
		if end-s.Start > 1 {
			return nil, false
		}
		if end == s.Start {
			return []int{}, true
		}
		return []int{s.Start}, true
	}
	for i := s.Start; i < end; i += s.Step {
		idx = append(idx, i)
	}
	return idx, true
}

// ambiguous reports the one case where the statement of C02 can be read both
// ways: a zero step whose requested extent is more than one element but whose
// extent after clamping to the axis is one element. Either outcome is accepted.
func (s SpecM) ambiguous(dim int) bool {
	if s.Nil || s.Index || s.Step != 0 || s.Start < 0 || s.Start >= dim {
		return false
	}
	end := s.End
	if end > dim {
		end = dim
	}
	return s.End-s.Start > 1 && end-s.Start <= 1
}

func ones(n int) []int {
	r := make([]int, n)
	for i := range r {
		r[i] = 1
	}
	return r
}

func iota(n int) []int {
	r := make([]int, n)
	for i := range r {
		r[i] = i
	}
	return r
}

func isIdentity(p []int) bool {
	for i, v := range p {
		if v != i {
			return false
		}
	}
	return true
}

func invPerm(p []int) []int {
	r := make([]int, len(p))
	for i, v := range p {
		r[v] = i
	}
	return r
}

func revPerm(n int) []int {
	r := make([]int, n)
	for i := range r {
		r[i] = n - 1 - i
	}
	return r
}

// allPerms lists every permutation of 0..n-1 in lexicographic order.
func allPerms(n int) [][]int {
	var out [][]int
	var rec func(cur []int, used []bool)
	rec = func(cur []int, used []bool) {
		if len(cur) == n {
			out = append(out, cloneIntsNN(cur))
			return
		}
		for i := 0; i < n; i++ {
			if !used[i] {
				used[i] = true
				rec(append(cur, i), used)
				used[i] = false
			}
		}
	}
	rec(nil, make([]bool, n))
	return out
}

func fmtVal(v interface{}) string {
	switch x := v.(type) {
	case unsafe.Pointer:
		return fmt.Sprintf("ptr(%x)", uintptr(x))
	case string:
		return strconv.Quote(x)
	}
	return fmt.Sprintf("%v", v)
}

func fmtVals(vs []interface{}) string {
	s := "["
	for i, v := range vs {
		if i > 0 {
			s += " "
		}
		if i >= 24 {
			s += "..."
			break
		}
		s += fmtVal(v)
	}
	return s + "]"
}
