package props

import (
	"fmt"
	"testing"

	"pgregory.net/rapid"
)

// C01 — coordinate addressing is exact and bounds-checked.

type C01Case struct {
	DT    string `json:"dt"`
	Shape []int  `json:"shape"`
	L     Layout `json:"layout"`
	Base  int64  `json:"base"`
}

func init() { register("C01.addr", func() Case { return &C01Case{} }) }

func (c *C01Case) NTKey() string {
	big := 0
	for _, d := range c.Shape {
		if d >= 2 {
			big++
		}
	}
	if big >= 2 || len(c.L.Steps) > 0 {
		return fmt.Sprintf("%s|%v|%v", c.DT, c.Shape, c.L)
	}
	return ""
}

func (c *C01Case) Run() string {
	d := dtByName(c.DT)
	arr := seqArr(d, c.Shape, c.Base)
	if d.Name == "bool" {
		for k := range arr.E {
			arr.E[k] = ((k*k+k/3)&1 == 1) != (c.Base&1 == 1)
		}
	}
	b, err := Build(arr, c.L, nil)
	if err != nil {
		if _, ok := err.(*LayoutErr); ok && len(c.L.Steps) > 0 && !isReadBack(err) {
			return inconclusive // Slice/T refused: that is C02/C03's business
		}
		return "construction does not read back: " + err.Error()
	}
	rec.Class("layout:" + c.L.Kind())
	// the constructor put every element at the storage position its data order says
	if diff := b.FrameDiff(b.RootE); diff != "" {
		return "storage after construction: " + diff
	}
	t := b.T
	rank := len(c.Shape)
	// the box [-2, dim+1]^rank
	box := make([]int, rank)
	for i, dim := range c.Shape {
		box[i] = dim + 4
	}
	coord := make([]int, rank)
	nIn, nOut := 0, 0
	for _, bc := range coordsOf(box) {
		in := true
		for i := range bc {
			coord[i] = bc[i] - 2
			if coord[i] < 0 || coord[i] >= c.Shape[i] {
				in = false
			}
		}
		if in {
			nIn++
			k := flatIdx(c.Shape, coord)
			v, err := safeAt(t, coord)
			if err != nil {
				return fmt.Sprintf("At(%v) on shape %v refused an in-range coordinate: %v", coord, c.Shape, err)
			}
			if !bitEqVal(v, arr.E[k]) {
				return fmt.Sprintf("At(%v) = %s, expected %s", coord, fmtVal(v), fmtVal(arr.E[k]))
			}
			nv := conv(d, 240)
			if d.Name == "bool" {
				nv = !(arr.E[k].(bool))
			} else if eqVal(nv, arr.E[k]) {
				nv = conv(d, 241)
			}
			var serr error
			if p := try(func() { serr = t.SetAt(nv, coord...) }); p != "" {
				return fmt.Sprintf("SetAt(%v) panicked: %s", coord, p)
			}
			if serr != nil {
				return fmt.Sprintf("SetAt(%v) refused an in-range coordinate: %v", coord, serr)
			}
			want := append([]interface{}{}, b.RootE...)
			want[b.Idx[k]] = nv
			if diff := b.FrameDiff(want); diff != "" {
				return fmt.Sprintf("after SetAt(%s, %v): %s", fmtVal(nv), coord, diff)
			}
			if p := try(func() { serr = t.SetAt(arr.E[k], coord...) }); p != "" || serr != nil {
				return fmt.Sprintf("SetAt(%v) restoring: %v %v", coord, p, serr)
			}
			if diff := b.FrameDiff(b.RootE); diff != "" {
				return fmt.Sprintf("after restoring %v: %s", coord, diff)
			}
		} else {
			nOut++
			if msg := c.mustReject(b, coord); msg != "" {
				return msg
			}
		}
	}
	// far misses: components whose low 32 (or 31, 16, 8) bits look in range, and the extremes of int
	nFar := 0
	for ax := 0; ax < rank; ax++ {
		for _, base := range []int{0, c.Shape[ax] - 1} {
			for _, h := range []int{1 << 32, -(1 << 32), 1 << 31, -(1 << 31), 1 << 33, 3 << 32, -(3 << 32), 1 << 16, 1 << 8, 1 << 62, -(1 << 62), int(^uint(0) >> 1), -int(^uint(0)>>1) - 1} {
				for i := range coord {
					coord[i] = 0
					if i != ax && c.Shape[i] > 1 && (h>>8)&1 == 0 {
						coord[i] = c.Shape[i] - 1
					}
				}
				coord[ax] = base + h
				if coord[ax] >= 0 && coord[ax] < c.Shape[ax] {
					continue // wrapped back into range (int overflow of base+h)
				}
				nFar++
				if msg := c.mustReject(b, coord); msg != "" {
					return "far miss: " + msg
				}
			}
		}
	}
	// two far components that cancel in a flat offset computed from the shape
	if rank >= 2 && c.Shape[rank-1] >= 1 {
		for i := range coord {
			coord[i] = 0
		}
		coord[rank-2] = 1 << 32
		coord[rank-1] = -(c.Shape[rank-1] << 32)
		nFar++
		if msg := c.mustReject(b, coord); msg != "" {
			return "far miss (cancelling pair): " + msg
		}
	}
	rec.ClassN("coords_far_miss", nFar)
	// wrong arity
	if rank > 0 {
		if msg := c.mustReject(b, make([]int, rank-1)); msg != "" {
			return "arity-1: " + msg
		}
		if rank > 1 {
			if msg := c.mustReject(b, []int{}); msg != "" {
				return "arity 0: " + msg
			}
		}
	}
	if msg := c.mustReject(b, make([]int, rank+1)); msg != "" {
		return "arity+1: " + msg
	}
	rec.ClassN("coords_in_range", nIn)
	rec.ClassN("coords_near_miss", nOut)
	return ""
}

func isReadBack(err error) bool {
	le, ok := err.(*LayoutErr)
	return ok && (contains(le.Msg, "does not read back") || contains(le.Msg, "gives shape"))
}

func contains(s, sub string) bool {
	for i := 0; i+len(sub) <= len(s); i++ {
		if s[i:i+len(sub)] == sub {
			return true
		}
	}
	return false
}

func (c *C01Case) mustReject(b *Built, coord []int) string {
	d := dtByName(c.DT)
	var v interface{}
	var err error
	if p := try(func() { v, err = b.T.At(coord...) }); p != "" {
		return fmt.Sprintf("At(%v) on shape %v panicked instead of returning an error: %s", coord, c.Shape, p)
	}
	if err == nil {
		return fmt.Sprintf("At(%v) on shape %v was accepted (returned %s); the coordinate is invalid", coord, c.Shape, fmtVal(v))
	}
	if v != nil {
		return fmt.Sprintf("At(%v) returned both a value %s and an error", coord, fmtVal(v))
	}
	nv := conv(d, 242)
	if p := try(func() { err = b.T.SetAt(nv, coord...) }); p != "" {
		return fmt.Sprintf("SetAt(%v) on shape %v panicked instead of returning an error: %s", coord, c.Shape, p)
	}
	if err == nil {
		diff := b.FrameDiff(b.RootE)
		return fmt.Sprintf("SetAt(%v) on shape %v was accepted; the coordinate is invalid (%s)", coord, c.Shape, diff)
	}
	if diff := b.FrameDiff(b.RootE); diff != "" {
		return fmt.Sprintf("rejected SetAt(%v) still wrote: %s", coord, diff)
	}
	return ""
}

var c01Layouts = []string{"contig", "cmraw", "cmconv", "sliced", "stepsliced", "lazyT", "slicedT", "Tsliced", "picked", "pickslice", "cmraw+sliced", "cmraw+lazyT", "cmconv+sliced", "cmconv+lazyT"}

func genC01Shape(t *rapid.T) []int {
	switch rapid.IntRange(0, 9).Draw(t, "shapeclass") {
	case 0:
		return []int{}
	case 1:
		return []int{rapid.IntRange(1, 4).Draw(t, "n")}
	case 2:
		return []int{rapid.IntRange(1, 4).Draw(t, "n"), 1}
	case 3:
		return []int{1, rapid.IntRange(1, 4).Draw(t, "n")}
	case 4:
		s := genShape(t, 3, 4, 3, "s")
		s[rapid.IntRange(0, len(s)-1).Draw(t, "one")] = 1
		return s
	}
	mr := 4
	return genShape(t, 1, mr, 4, "s")
}

func TestC01(t *testing.T) {
	for _, d := range append(append([]DT{}, allDTs...), extDTs...) {
		for _, lk := range c01Layouts {
			d, lk := d, lk
			cell(t, "C01", "C01.addr", d.Name+"/"+lk, nCases(3, 40), func(rt *rapid.T) Case {
				shape := genC01Shape(rt)
				if prod(shape)*9 > 4000 { // keep the box sweep bounded
					shape = shape[:len(shape)-1]
				}
				return &C01Case{DT: d.Name, Shape: shape, L: genLayoutKind(rt, lk, len(shape), "l"), Base: rapid.Int64Range(0, 40).Draw(rt, "base")}
			})
		}
	}
}
