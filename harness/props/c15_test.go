package props

import (
	"fmt"
	"math"
	"reflect"
	"testing"

	"gorgonia.org/tensor"
	"pgregory.net/rapid"
)

// C15 — masks are set, counted, iterated and respected consistently.

// ---------------------------------------------------------------- predicates

type C15Pred struct {
	Pred  string  `json:"pred"` // Equal NotEqual Greater GreaterEqual Less LessEqual Inside Outside Values
	DT    string  `json:"dt"`
	Shape []int   `json:"shape"`
	Codes []int64 `json:"codes"`
	V1    int64   `json:"v1"`
	V2    int64   `json:"v2"`
	Soft  bool    `json:"soft"`
	Prior string  `json:"prior"` // none | allfalse | random | alltrue
	PMask []bool  `json:"pmask,omitempty"`
	Root  string  `json:"root"`
	// Values (floats only): V1 is the value, RTol/ATol index c15Tols; ATol 0: no absolute tolerance is passed
	RTol int `json:"rtol,omitempty"`
	ATol int `json:"atol,omitempty"`
	// Pred2/V3: a second predicate applied afterwards (soft: it replaces the first one's mask; hard: it adds to it)
	Pred2 string `json:"pred2,omitempty"`
	V3    int64  `json:"v3,omitempty"`
}

// tolerances for MaskedValues: exactly representable, so that |a-v| <= atol + rtol*|v| is decided exactly
var c15Tols = []float64{0, 0.5, 1, 2}

func init() { register("C15.pred", func() Case { return &C15Pred{} }) }

func (c *C15Pred) NTKey() string {
	if !c.Soft && c.Prior == "none" {
		return ""
	}
	return fmt.Sprintf("%s|%s|%v|%v|%s|%v|%s", c.Pred, c.DT, c.Shape, c.Soft, c.Prior, c.Codes, c.Pred2)
}

func predModel(pred string, v, a, b interface{}) bool {
	t := func(op string, x, y interface{}) bool { r, _ := cmpop(op, x, y); return r }
	switch pred {
	case "Equal":
		return t("ElEq", v, a)
	case "NotEqual":
		return t("ElNe", v, a)
	case "Greater":
		return t("Gt", v, a)
	case "GreaterEqual":
		return t("Gte", v, a)
	case "Less":
		return t("Lt", v, a)
	case "LessEqual":
		return t("Lte", v, a)
	case "Inside":
		return t("Gte", v, a) && t("Lte", v, b)
	case "Outside":
		return t("Lt", v, a) || t("Gt", v, b)
	}
	panic("HARNESS: pred " + pred)
}

func (c *C15Pred) Run() string {
	d := dtByName(c.DT)
	arr := mkArr(d, c.Shape, c.Codes)
	var prior []bool
	switch c.Prior {
	case "allfalse":
		prior = make([]bool, len(arr.E))
	case "alltrue":
		prior = make([]bool, len(arr.E))
		for i := range prior {
			prior[i] = true
		}
	case "random":
		prior = append([]bool{}, c.PMask...)
	}
	b, err := Build(arr, Layout{Root: c.Root}, prior)
	if err != nil {
		return inconclusive
	}
	t := b.T
	if c.Soft {
		t.SoftenMask()
	} else {
		t.HardenMask()
	}
	v1, v2 := decode(d, c.V1), decode(d, c.V2)
	if c.Pred == "Inside" || c.Pred == "Outside" {
		if lt, _ := cmpop("Gt", v1, v2); lt {
			v1, v2 = v2, v1 // ordered bounds (reversed bounds are outside the domain)
		}
	}
	desc := fmt.Sprintf("Masked%s(%s, %s) on %s %v soft=%v prior=%s", c.Pred, fmtVal(v1), fmtVal(v2), c.DT, fmtVals(arr.E), c.Soft, c.Prior)
	if c.Pred == "Values" {
		return c.runValues(t, arr, prior, v1)
	}
	var lerr error
	pan := try(func() {
		m := reflect.ValueOf(t).MethodByName("Masked" + c.Pred)
		if !m.IsValid() {
			panic("HARNESS: no method Masked" + c.Pred)
		}
		args := []reflect.Value{reflect.ValueOf(v1)}
		if c.Pred == "Inside" || c.Pred == "Outside" {
			args = append(args, reflect.ValueOf(v2))
		}
		out := m.Call(args)
		if !out[0].IsNil() {
			lerr = out[0].Interface().(error)
		}
	})
	if pan != "" {
		return desc + " panicked: " + pan
	}
	if lerr != nil {
		return desc + " failed: " + lerr.Error()
	}
	var v3 interface{}
	if c.Pred2 != "" {
		v3 = decode(d, c.V3)
		desc += fmt.Sprintf(" then Masked%s(%s)", c.Pred2, fmtVal(v3))
		var err2 error
		if p := try(func() {
			out := reflect.ValueOf(t).MethodByName("Masked" + c.Pred2).Call([]reflect.Value{reflect.ValueOf(v3)})
			if !out[0].IsNil() {
				err2 = out[0].Interface().(error)
			}
		}); p != "" {
			return desc + " panicked: " + p
		}
		if err2 != nil {
			return desc + " failed: " + err2.Error()
		}
	}
	for k, cc := range coordsOf(c.Shape) {
		want := predModel(c.Pred, arr.E[k], v1, v2)
		if !c.Soft && prior != nil {
			want = want || prior[k]
		}
		if c.Pred2 != "" {
			second := predModel(c.Pred2, arr.E[k], v3, nil)
			if c.Soft {
				want = second
			} else {
				want = want || second
			}
		}
		var got bool
		var err error
		if len(c.Shape) == 0 {
			if !t.IsMasked() {
				return desc + ": the tensor is not masked afterwards"
			}
			got = t.Mask()[0]
		} else if got, err = t.MaskAt(cc...); err != nil {
			return desc + fmt.Sprintf(": MaskAt(%v): %v", cc, err)
		}
		if got != want {
			return desc + fmt.Sprintf(": mask bit at %v (element %s) is %v, expected %v", cc, fmtVal(arr.E[k]), got, want)
		}
	}
	if m := compareAt(t, arr, bitEqVal); m != "" {
		return desc + ": the elements changed: " + m
	}
	return ""
}

// runValues: MaskedValues(v, rtol[, atol]) marks the elements within atol + rtol*|v| of v (without an
// absolute tolerance: the elements equal to v; the generated elements differ from v by 0 or by at least 1/2,
// and |v| is small, so every reading of the default tolerance agrees). Floats only; other types are refused.
func (c *C15Pred) runValues(t *tensor.Dense, arr Arr, prior []bool, v1 interface{}) string {
	d := arr.DT
	rtol := c15Tols[c.RTol%len(c15Tols)]
	desc := fmt.Sprintf("MaskedValues(%s, rtol %v, atol index %d) on %s %v soft=%v prior=%s", fmtVal(v1), rtol, c.ATol, c.DT, fmtVals(arr.E), c.Soft, c.Prior)
	wasMasked := t.IsMasked()
	var lerr error
	pan := try(func() {
		var r, a interface{}
		if d.Name == "float32" {
			r = float32(rtol)
			if c.ATol > 0 {
				a = float32(c15Tols[(c.ATol-1)%len(c15Tols)])
			}
		} else {
			r = rtol
			if c.ATol > 0 {
				a = c15Tols[(c.ATol-1)%len(c15Tols)]
			}
		}
		if !d.IsFloat() {
			r, a = v1, nil
		}
		if a != nil {
			lerr = t.MaskedValues(v1, r, a)
		} else {
			lerr = t.MaskedValues(v1, r)
		}
	})
	if !d.IsFloat() {
		rec.Class("values:refused-type")
		if pan == "" && lerr == nil {
			return desc + ": accepted for a non-float element type"
		}
		if t.IsMasked() != wasMasked {
			return desc + ": refused, but the tensor's mask changed"
		}
		return ""
	}
	if pan != "" {
		return desc + " panicked: " + pan
	}
	if lerr != nil {
		return desc + " failed: " + lerr.Error()
	}
	x := toF64(v1)
	delta := 1.0e-8
	if c.ATol > 0 {
		delta = c15Tols[(c.ATol-1)%len(c15Tols)] + rtol*math.Abs(x)
	}
	for k, cc := range coordsOf(c.Shape) {
		diff := toF64(arr.E[k]) - x
		if d.Name == "float32" {
			diff = float64(arr.E[k].(float32) - v1.(float32))
		}
		want := math.Abs(diff) <= delta
		if !c.Soft && prior != nil {
			want = want || prior[k]
		}
		var got bool
		var err error
		if len(c.Shape) == 0 {
			if !t.IsMasked() {
				return desc + ": the tensor is not masked afterwards"
			}
			got = t.Mask()[0]
		} else if got, err = t.MaskAt(cc...); err != nil {
			return desc + fmt.Sprintf(": MaskAt(%v): %v", cc, err)
		}
		if got != want {
			return desc + fmt.Sprintf(": mask bit at %v (element %s) is %v, expected %v", cc, fmtVal(arr.E[k]), got, want)
		}
	}
	if m := compareAt(t, arr, bitEqVal); m != "" {
		return desc + ": the elements changed: " + m
	}
	return ""
}

// ---------------------------------------------------------------- inspection, every mask

type C15Inspect struct {
	Shape   []int  `json:"shape"`
	Mask    []bool `json:"mask"`
	Root    string `json:"root"`
	PerAxis bool   `json:"per_axis,omitempty"` // also check MaskedCount(axis) (open finding F22: excluded by the generators)
	L       Layout `json:"layout,omitempty"`   // a masked tensor that is lazily transposed / a view (zero: the plain root)
	DT      string `json:"dt,omitempty"`       // element type (default int16)
}

func init() { register("C15.inspect", func() Case { return &C15Inspect{} }) }

func (c *C15Inspect) NTKey() string {
	any, all := false, true
	for _, m := range c.Mask {
		any = any || m
		all = all && m
	}
	if !any || all {
		return ""
	}
	return fmt.Sprintf("%v|%v|%s|%v|%s", c.Shape, c.Mask, c.Root, c.L, c.DT)
}

// runs returns the maximal runs [start,end) of positions whose mask bit equals want.
func runs(mask []bool, want bool) [][2]int {
	var out [][2]int
	for i := 0; i < len(mask); {
		if mask[i] != want {
			i++
			continue
		}
		j := i
		for j < len(mask) && mask[j] == want {
			j++
		}
		out = append(out, [2]int{i, j})
		i = j
	}
	return out
}

func (c *C15Inspect) Run() string {
	d := dtInt16
	if c.DT != "" {
		d = dtByName(c.DT)
	}
	arr := seqArr(d, c.Shape, 1)
	l := c.L
	if l.Root == "" {
		l = Layout{Root: c.Root}
	}
	b, err := Build(arr, l, c.Mask)
	if err != nil {
		return inconclusive
	}
	t := b.T
	if !t.IsMasked() {
		return inconclusive
	}
	n := len(arr.E)
	desc := fmt.Sprintf("mask %v on shape %v (%v)", c.Mask, c.Shape, l)
	cnt := 0
	for _, m := range c.Mask {
		if m {
			cnt++
		}
	}
	var msg string
	pan := try(func() {
		if got := t.MaskedCount(); got != cnt {
			msg = fmt.Sprintf("%s: MaskedCount() = %v, expected %d", desc, got, cnt)
			return
		}
		if got := t.NonMaskedCount(); got != n-cnt {
			msg = fmt.Sprintf("%s: NonMaskedCount() = %v, expected %d", desc, got, n-cnt)
			return
		}
		if got := t.MaskedAny(); got != (cnt > 0) {
			msg = fmt.Sprintf("%s: MaskedAny() = %v, expected %v", desc, got, cnt > 0)
			return
		}
		if got := t.MaskedAll(); got != (cnt == n) {
			msg = fmt.Sprintf("%s: MaskedAll() = %v, expected %v", desc, got, cnt == n)
			return
		}
		if len(l.Steps) > 0 {
			// a lazily transposed (or sliced) masked tensor: the edge finders walk it in logical order and
			// report positions in its storage window
			rec.Class("inspect-layout:" + l.Kind())
			offs := expectOffsets(b)
			edges := func(want bool) (int, int) {
				f, l := -1, -1
				for i, m := range c.Mask {
					if m == want {
						if f == -1 {
							f = offs[i]
						}
						l = offs[i]
					}
				}
				return f, l
			}
			if f, l := t.FlatNotMaskedEdges(); true {
				if wf, wl := edges(false); f != wf || l != wl {
					msg = fmt.Sprintf("%s: FlatNotMaskedEdges() = (%d,%d), expected (%d,%d)", desc, f, l, wf, wl)
					return
				}
			}
			if f, l := t.FlatMaskedEdges(); true {
				if wf, wl := edges(true); f != wf || l != wl {
					msg = fmt.Sprintf("%s: FlatMaskedEdges() = (%d,%d), expected (%d,%d)", desc, f, l, wf, wl)
					return
				}
			}
		}
		if c.Root == "rm" && len(l.Steps) == 0 { // the run and edge finders speak about the flattened (row-major) array
			chk := func(name string, got []tensor.Slice, want [][2]int) bool {
				if len(got) != len(want) {
					msg = fmt.Sprintf("%s: %s finds %d runs, expected %v", desc, name, len(got), want)
					return false
				}
				for i, w := range want {
					if got[i].Start() != w[0] || got[i].End() != w[1] {
						msg = fmt.Sprintf("%s: %s run %d is [%d:%d], expected [%d:%d]", desc, name, i, got[i].Start(), got[i].End(), w[0], w[1])
						return false
					}
				}
				return true
			}
			if !chk("FlatNotMaskedContiguous", t.FlatNotMaskedContiguous(), runs(c.Mask, false)) {
				return
			}
			if !chk("FlatMaskedContiguous", t.FlatMaskedContiguous(), runs(c.Mask, true)) {
				return
			}
			if !chk("ClumpMasked", t.ClumpMasked(), runs(c.Mask, true)) {
				return
			}
			if !chk("ClumpUnmasked", t.ClumpUnmasked(), runs(c.Mask, false)) {
				return
			}
			edges := func(want bool) (int, int) {
				f, l := -1, -1
				for i, m := range c.Mask {
					if m == want {
						if f == -1 {
							f = i
						}
						l = i
					}
				}
				return f, l
			}
			if f, l := t.FlatNotMaskedEdges(); true {
				wf, wl := edges(false)
				if f != wf || l != wl {
					msg = fmt.Sprintf("%s: FlatNotMaskedEdges() = (%d,%d), expected (%d,%d)", desc, f, l, wf, wl)
					return
				}
			}
			if f, l := t.FlatMaskedEdges(); true {
				wf, wl := edges(true)
				if f != wf || l != wl {
					msg = fmt.Sprintf("%s: FlatMaskedEdges() = (%d,%d), expected (%d,%d)", desc, f, l, wf, wl)
					return
				}
			}
		}
		// Filled: masked positions replaced by the given value, others kept, source untouched
		fill := conv(d, 99)
		want := arr.Clone()
		for k := range want.E {
			if c.Mask[k] {
				want.E[k] = fill
			}
		}
		f, ferr := t.Filled(fill)
		if ferr != nil {
			msg = fmt.Sprintf("%s: Filled failed: %v", desc, ferr)
			return
		}
		if m := compareAt(f.(*tensor.Dense), want, bitEqVal); m != "" {
			msg = fmt.Sprintf("%s: Filled(99): %s", desc, m)
			return
		}
		if m := compareAt(t, arr, bitEqVal); m != "" {
			msg = fmt.Sprintf("%s: Filled changed its receiver: %s", desc, m)
			return
		}
		// without a value: the element type's default fill value, at the same positions
		if dv := t.FillValue(); dv != nil {
			wantD := arr.Clone()
			for k := range wantD.E {
				if c.Mask[k] {
					wantD.E[k] = dv
				}
			}
			f, ferr := t.Filled()
			if ferr != nil {
				msg = fmt.Sprintf("%s: Filled() failed: %v", desc, ferr)
				return
			}
			if m := compareAt(f.(*tensor.Dense), wantD, bitEqVal); m != "" {
				msg = fmt.Sprintf("%s: Filled() with the default fill value %v: %s", desc, dv, m)
				return
			}
		}
		// per-axis counts and queries: the answer for each position of the remaining axes; vector-shaped
		// tensors ((n), (1,n), (n,1)) get the whole-array answer whatever the axis (pinned by the suite), an
		// axis that does not exist is answered with -1
		if m := c.perAxis(t, desc); m != "" {
			msg = m
			return
		}
		// FilledInplace last (it modifies the tensor)
		if _, ferr = t.FilledInplace(fill); ferr != nil {
			msg = fmt.Sprintf("%s: FilledInplace failed: %v", desc, ferr)
			return
		}
		if m := compareAt(t, want, bitEqVal); m != "" {
			msg = fmt.Sprintf("%s: FilledInplace(99): %s", desc, m)
			return
		}
		if !b.Detached {
			if diff := b.FrameDiff(b.ExpectRoot(want.E)); diff != "" {
				msg = fmt.Sprintf("%s: FilledInplace(99) outside the tensor: %s", desc, diff)
				return
			}
		}
	})
	if pan != "" {
		return desc + " panicked: " + pan
	}
	return msg
}

// perAxis checks MaskedCount/NonMaskedCount/MaskedAny/MaskedAll with an axis argument against the mask.
func (c *C15Inspect) perAxis(t *tensor.Dense, desc string) string {
	n := len(c.Mask)
	shape := []int(t.Shape())
	if t.IsScalar() {
		shape = nil
	}
	cnt := 0
	for _, m := range c.Mask {
		if m {
			cnt++
		}
	}
	ma := Arr{DT: dtInt, Shape: shape, E: make([]interface{}, n)}
	for k := range ma.E {
		ma.E[k] = 0
		if c.Mask[k] {
			ma.E[k] = 1
		}
	}
	if len(shape) == 2 && shape[0] == 1 && shape[1] == 1 {
		return "" // (1,1): the whole-array answer and the per-axis answer say the same; either form is taken
	}
	isVec := len(shape) == 1 || (len(shape) == 2 && (shape[0] == 1 || shape[1] == 1))
	type fnT struct {
		name  string
		call  func(ax int) interface{}
		whole interface{}
		dt    DT
		conv  func(masked, length int) interface{}
	}
	fns := []fnT{
		{"MaskedCount", func(ax int) interface{} { return t.MaskedCount(ax) }, cnt, dtInt, func(m, l int) interface{} { return m }},
		{"NonMaskedCount", func(ax int) interface{} { return t.NonMaskedCount(ax) }, n - cnt, dtInt, func(m, l int) interface{} { return l - m }},
		{"MaskedAny", func(ax int) interface{} { return t.MaskedAny(ax) }, cnt > 0, dtBool, func(m, l int) interface{} { return m > 0 }},
		{"MaskedAll", func(ax int) interface{} { return t.MaskedAll(ax) }, cnt == n, dtBool, func(m, l int) interface{} { return m == l }},
	}
	for _, f := range fns {
		for ax := 0; ax <= len(shape); ax++ {
			got := f.call(ax)
			switch {
			case isVec:
				rec.Class("per-axis:vector")
				if got != f.whole {
					return fmt.Sprintf("%s: %s(%d) on a vector-shaped tensor = %v, expected the whole-array answer %v", desc, f.name, ax, got, f.whole)
				}
			case ax >= len(shape):
				if got != -1 {
					return fmt.Sprintf("%s: %s(%d) for an axis the tensor does not have = %v, expected -1", desc, f.name, ax, got)
				}
			default:
				rec.Class("per-axis:tensor")
				gd, ok := got.(*tensor.Dense)
				if !ok {
					return fmt.Sprintf("%s: %s(%d) returned %T %v", desc, f.name, ax, got, got)
				}
				sums := ma.ReduceAxes([]int{ax}, func(acc, v interface{}) interface{} { return acc.(int) + v.(int) })
				want := Arr{DT: f.dt, Shape: sums.Shape, E: make([]interface{}, len(sums.E))}
				for k, v := range sums.E {
					want.E[k] = f.conv(v.(int), shape[ax])
				}
				if !eqInts([]int(gd.Shape()), want.Shape) {
					return fmt.Sprintf("%s: %s(%d) has shape %v, expected %v", desc, f.name, ax, gd.Shape(), want.Shape)
				}
				if m := compareAt(gd, want, eqVal); m != "" {
					return fmt.Sprintf("%s: %s(%d): %s", desc, f.name, ax, m)
				}
			}
		}
	}
	return ""
}

// C15AllMasks sweeps every mask over the elements of a shape.
type C15AllMasks struct {
	Shape []int  `json:"shape"`
	Root  string `json:"root"`
}

func init() { register("C15.allmasks", func() Case { return &C15AllMasks{} }) }

func (c *C15AllMasks) NTKey() string { return fmt.Sprintf("%v|%s", c.Shape, c.Root) }

func (c *C15AllMasks) Run() string {
	n := prod(c.Shape)
	for bits := 0; bits < 1<<uint(n); bits++ {
		mask := make([]bool, n)
		for i := range mask {
			mask[i] = bits>>uint(i)&1 == 1
		}
		resetLib()
		rec.Eval()
		sub := &C15Inspect{Shape: c.Shape, Mask: mask, Root: c.Root}
		if msg := sub.Run(); msg != "" && msg != inconclusive {
			return msg
		}
		if k := sub.NTKey(); k != "" {
			rec.NonTrivial("mask|" + k)
		}
	}
	rec.ClassN("masks-swept", 1<<uint(n))
	return ""
}

// ---------------------------------------------------------------- masks stay attached

type C15Carry struct {
	Shape []int   `json:"shape"`
	Mask  []bool  `json:"mask"`
	Op    string  `json:"op"` // T | Transpose | Slice | Clone | Materialize | SafeT
	Perm  []int   `json:"perm,omitempty"`
	Specs []SpecJ `json:"specs,omitempty"`
	DT    string  `json:"dt,omitempty"` // element type (default int16): the data movers differ by element size
}

func init() { register("C15.carry", func() Case { return &C15Carry{} }) }

func (c *C15Carry) NTKey() string {
	return fmt.Sprintf("%v|%v|%s|%v|%v|%s", c.Shape, c.Mask, c.Op, c.Perm, c.Specs, c.DT)
}

func (c *C15Carry) Run() string {
	d := dtInt16
	if c.DT != "" {
		d = dtByName(c.DT)
	}
	arr := seqArr(d, c.Shape, 1)
	b, err := Build(arr, Layout{Root: "rm"}, c.Mask)
	if err != nil {
		return inconclusive
	}
	t := b.T
	mk := Arr{DT: dtBool, Shape: c.Shape, E: make([]interface{}, len(c.Mask))}
	for k, m := range c.Mask {
		mk.E[k] = m
	}
	desc := fmt.Sprintf("%s(perm %v specs %v) of masked %v mask %v", c.Op, c.Perm, c.Specs, c.Shape, c.Mask)
	var res, parent *tensor.Dense
	parentOff := 0
	skip := false
	wantE, wantM := arr, mk
	var lerr error
	pan := try(func() {
		switch c.Op {
		case "T":
			lerr = t.T(cloneIntsNN(c.Perm)...)
			res = t
			wantE, wantM = arr.Permute(c.Perm), mk.Permute(c.Perm)
		case "Transpose":
			if lerr = t.T(cloneIntsNN(c.Perm)...); lerr == nil {
				lerr = t.Transpose()
			}
			res = t
			wantE, wantM = arr.Permute(c.Perm), mk.Permute(c.Perm)
		case "SafeT":
			res, lerr = t.SafeT(cloneIntsNN(c.Perm)...)
			wantE, wantM = arr.Permute(c.Perm), mk.Permute(c.Perm)
		case "ViewTranspose":
			// the masked tensor is a gap-free view (rows 1.. of a parent with one more row): transposing
			// the view for good permutes the part of the parent's storage it covers, elements and mask alike
			pshape := append([]int{c.Shape[0] + 1}, c.Shape[1:]...)
			inner := prod(c.Shape[1:])
			pvals := append(seqArr(d, []int{inner}, 60).E, arr.E...)
			pmask := make([]bool, len(pvals))
			for i := range pmask {
				if i < inner {
					pmask[i] = i%2 == 0
				} else {
					pmask[i] = c.Mask[i-inner]
				}
			}
			parent = tensor.New(tensor.WithShape(pshape...), tensor.WithBacking(mkBacking(d, pvals), pmask))
			v, err := parent.Slice(RS{1, pshape[0], 1})
			if err != nil {
				lerr = err
				return
			}
			vd := v.(*tensor.Dense)
			if !eqInts([]int(vd.Shape()), c.Shape) {
				skip = true // a single row: the library drops the axis
				return
			}
			if lerr = vd.T(cloneIntsNN(c.Perm)...); lerr == nil {
				lerr = vd.Transpose()
			}
			res = vd
			wantE, wantM = arr.Permute(c.Perm), mk.Permute(c.Perm)
			parentOff = inner
		case "Clone":
			res = t.Clone().(*tensor.Dense)
		case "T+Materialize", "T+Clone", "T+Copy":
			// a copy of a lazily transposed masked tensor: elements and mask bits land at the transposed coordinates
			if lerr = t.T(cloneIntsNN(c.Perm)...); lerr != nil {
				return
			}
			wantE, wantM = arr.Permute(c.Perm), mk.Permute(c.Perm)
			switch c.Op {
			case "T+Materialize":
				res = t.Materialize().(*tensor.Dense)
			case "T+Clone":
				res = t.Clone().(*tensor.Dense)
			default:
				dst := tensor.New(tensor.Of(d.T), tensor.WithShape(wantE.Shape...))
				dst.ResetMask(false)
				if lerr = tensor.Copy(dst, t); lerr != nil {
					return
				}
				res = dst
			}
		case "Materialize", "Slice":
			sl := make([]tensor.Slice, len(c.Specs))
			sels := make([][]int, len(c.Shape))
			for i := range c.Shape {
				sp := SpecM{Nil: true}
				if i < len(c.Specs) {
					sp = c.Specs[i].model()
					sl[i] = c.Specs[i].lib("RS")
				}
				sels[i], _ = sp.sel(c.Shape[i])
			}
			var v tensor.View
			if v, lerr = t.Slice(sl...); lerr != nil {
				return
			}
			res = v.(*tensor.Dense)
			if c.Op == "Materialize" {
				res = res.Materialize().(*tensor.Dense)
			}
			ws := make([]int, len(sels))
			for i := range sels {
				ws[i] = len(sels[i])
			}
			wantE = Arr{DT: d, Shape: ws, E: make([]interface{}, prod(ws))}
			wantM = Arr{DT: dtBool, Shape: ws, E: make([]interface{}, prod(ws))}
			src := make([]int, len(ws))
			for k, cc := range coordsOf(ws) {
				for i := range cc {
					src[i] = sels[i][cc[i]]
				}
				wantE.E[k], wantM.E[k] = arr.At(src), mk.At(src)
			}
		}
	})
	if skip {
		return inconclusive
	}
	if pan != "" {
		return desc + " panicked: " + pan
	}
	if lerr != nil {
		if _, ok := lerr.(tensor.NoOpError); ok {
			return ""
		}
		return desc + " failed: " + lerr.Error()
	}
	// the library may drop length-one axes of slices: compare in flattened order
	rs := []int(res.Shape())
	if prod(rs) != len(wantE.E) {
		return desc + fmt.Sprintf(": result shape %v, expected %v", rs, wantE.Shape)
	}
	wantE.Shape, wantM.Shape = rs, rs
	if m := compareAt(res, wantE, bitEqVal); m != "" {
		return desc + ": elements: " + m
	}
	if !res.IsMasked() {
		return desc + ": the result is no longer masked"
	}
	for k, cc := range coordsOf(rs) {
		var got bool
		var err error
		if len(rs) == 0 {
			got = res.Mask()[0]
		} else if got, err = res.MaskAt(cc...); err != nil {
			return desc + fmt.Sprintf(": MaskAt(%v): %v", cc, err)
		}
		if got != wantM.E[k].(bool) {
			return desc + fmt.Sprintf(": mask bit at %v is %v, the element %s carried %v", cc, got, fmtVal(wantE.E[k]), wantM.E[k])
		}
	}
	if parent != nil && len(wantE.E) > 1 {
		// the parent's storage behind the view now holds the transposed array in order, and its mask with it
		pd, pm := backingVals(parent.Data()), parent.Mask()
		for k := range wantE.E {
			if !bitEqVal(pd[parentOff+k], wantE.E[k]) {
				return desc + fmt.Sprintf(": the parent's storage element %d is %s, expected %s", parentOff+k, fmtVal(pd[parentOff+k]), fmtVal(wantE.E[k]))
			}
			if pm[parentOff+k] != wantM.E[k].(bool) {
				return desc + fmt.Sprintf(": the parent's mask at storage position %d is %v, but the element %s that now lives there carried %v", parentOff+k, pm[parentOff+k], fmtVal(wantE.E[k]), wantM.E[k])
			}
		}
		for k := 0; k < parentOff; k++ {
			if pm[k] != (k%2 == 0) {
				return desc + fmt.Sprintf(": the parent's mask outside the view changed at %d", k)
			}
		}
	}
	return ""
}

// ---------------------------------------------------------------- single mask bits

// C15Set: SetMaskAt(v, coord...) sets the mask bit of exactly that element - through a view or a lazy
// transposition the bit of the element the coordinate names, nothing else in the tensor or its parent -
// and MaskAt reads it back; a coordinate outside the tensor is refused and changes nothing.
type C15Set struct {
	Shape []int  `json:"shape"`
	Mask  []bool `json:"mask"`
	L     Layout `json:"layout"`
	K     int    `json:"k"` // logical position of the element whose bit is set
	V     bool   `json:"v"`
	Bad   int    `json:"bad"` // 0: valid coordinate; 1: one component == dimension; 2: negative; 3: one component too few; 4: one too many
}

func init() { register("C15.set", func() Case { return &C15Set{} }) }

func (c *C15Set) NTKey() string {
	if c.Bad == 0 && c.Mask[c.K%len(c.Mask)] == c.V {
		return "" // the bit already has the value
	}
	return fmt.Sprintf("%v|%v|%v|%d|%v|%d", c.Shape, c.Mask, c.L, c.K, c.V, c.Bad)
}

func (c *C15Set) Run() string {
	arr := seqArr(dtInt16, c.Shape, 1)
	b, err := Build(arr, c.L, c.Mask)
	if err != nil {
		return inconclusive
	}
	t := b.T
	if !t.IsMasked() || len(c.Shape) == 0 {
		return inconclusive
	}
	rec.Class("set-layout:" + c.L.Kind())
	k := c.K % len(c.Mask)
	coords := coordsOf(c.Shape)
	cc := cloneInts(coords[k])
	ax := c.K % len(c.Shape)
	switch c.Bad {
	case 1:
		cc[ax] = c.Shape[ax]
	case 2:
		cc[ax] = -1
	case 3:
		cc = cc[:len(cc)-1]
	case 4:
		cc = append(cc, 0)
	}
	desc := fmt.Sprintf("SetMaskAt(%v, %v) on shape %v (%v) mask %v", c.V, cc, c.Shape, c.L, c.Mask)
	rootMaskBefore := append([]bool{}, b.Root.Mask()...)
	var lerr error
	if pan := try(func() { lerr = t.SetMaskAt(c.V, cc...) }); pan != "" {
		return desc + " panicked: " + pan
	}
	want := append([]bool{}, c.Mask...)
	if c.Bad == 0 {
		if lerr != nil {
			return desc + " failed: " + lerr.Error()
		}
		want[k] = c.V
	} else {
		rec.Class("set:refused")
		if lerr == nil {
			return desc + ": a coordinate outside the tensor was accepted"
		}
	}
	for i, co := range coords {
		got, err := t.MaskAt(co...)
		if err != nil {
			return desc + fmt.Sprintf(": MaskAt(%v): %v", co, err)
		}
		if got != want[i] {
			return desc + fmt.Sprintf(": afterwards the mask bit at %v is %v, expected %v", co, got, want[i])
		}
	}
	if m := compareAt(t, arr, bitEqVal); m != "" {
		return desc + ": the elements changed: " + m
	}
	if !b.Detached {
		// the parent's bits: only the bit of the element named may differ
		now := b.Root.Mask()
		if len(now) != len(rootMaskBefore) {
			return desc + fmt.Sprintf(": the parent's mask now has %d entries, it had %d", len(now), len(rootMaskBefore))
		}
		allowed := -1
		if c.Bad == 0 {
			allowed = b.rawPos[b.Idx[k]]
		}
		for p := range now {
			if now[p] != rootMaskBefore[p] && p != allowed {
				return desc + fmt.Sprintf(": the parent's mask bit at storage position %d changed (the element named lives at %d)", p, allowed)
			}
		}
		if allowed >= 0 && now[allowed] != c.V {
			return desc + fmt.Sprintf(": the parent's mask bit of the element named (storage position %d) is %v", allowed, now[allowed])
		}
	}
	return ""
}

// ---------------------------------------------------------------- cells

var c15Preds = []string{"Equal", "NotEqual", "Greater", "GreaterEqual", "Less", "LessEqual", "Inside", "Outside"}
var c15PredDTs = []DT{dtInt, dtInt8, dtInt16, dtInt32, dtInt64, dtUint, dtUint8, dtUint16, dtUint32, dtUint64, dtF32, dtF64, dtStr}

func TestC15(t *testing.T) {
	for _, pred := range c15Preds {
		for _, d := range c15PredDTs {
			for _, soft := range []bool{true, false} {
				pred, d, soft := pred, d, soft
				cell(t, "C15", "C15.pred", fmt.Sprintf("%s/%s/soft=%v", pred, d.Name, soft), nCases(12, 300), func(rt *rapid.T) Case {
					shape := genShape(rt, 0, 3, 4, "s")
					n := prod(shape)
					c := &C15Pred{Pred: pred, DT: d.Name, Shape: shape, Soft: soft, Root: rapid.SampledFrom([]string{"rm", "rm", "cmraw"}).Draw(rt, "root")}
					c.Codes = genCodes(rt, n, -2, 4, 8, "v")
					c.V1 = genCodes(rt, 1, -2, 4, 8, "v1")[0]
					c.V2 = genCodes(rt, 1, -2, 4, 8, "v2")[0]
					if d.IsFloat() { // NaN bounds make every comparison false in a formulation-dependent way
						for _, p := range []*int64{&c.V1, &c.V2} {
							if isNaNVal(decode(d, *p)) {
								*p = 1
							}
						}
					}
					c.Prior = rapid.SampledFrom([]string{"none", "allfalse", "random", "alltrue"}).Draw(rt, "prior")
					if c.Prior == "random" {
						c.PMask = make([]bool, n)
						for i := range c.PMask {
							c.PMask[i] = rapid.Bool().Draw(rt, "pm")
						}
					}
					if rapid.IntRange(0, 2).Draw(rt, "second") == 0 {
						// a second predicate on the mask the first one left: a soft mask is replaced, a hard one grows
						c.Pred2 = rapid.SampledFrom([]string{"Equal", "NotEqual", "Greater", "GreaterEqual", "Less", "LessEqual"}).Draw(rt, "pred2")
						c.V3 = genCodes(rt, 1, -2, 4, 8, "v3")[0]
						if d.IsFloat() && isNaNVal(decode(d, c.V3)) {
							c.V3 = 1
						}
					}
					return c
				})
			}
		}
	}
	// by-values: within a tolerance of a value (floats), refused for the other types
	for _, d := range []DT{dtF32, dtF64, dtInt, dtUint8, dtStr} {
		for _, soft := range []bool{true, false} {
			d, soft := d, soft
			cell(t, "C15", "C15.pred", fmt.Sprintf("Values/%s/soft=%v", d.Name, soft), nCases(30, 900), func(rt *rapid.T) Case {
				shape := genShape(rt, 0, 3, 4, "s")
				n := prod(shape)
				c := &C15Pred{Pred: "Values", DT: d.Name, Shape: shape, Soft: soft, Root: rapid.SampledFrom([]string{"rm", "rm", "cmraw"}).Draw(rt, "root")}
				c.Codes = genCodes(rt, n, -4, 6, 8, "v")
				c.V1 = int64(rapid.IntRange(-4, 6).Draw(rt, "v1"))
				c.RTol = rapid.IntRange(0, len(c15Tols)-1).Draw(rt, "rtol")
				c.ATol = rapid.IntRange(0, len(c15Tols)).Draw(rt, "atol")
				c.Prior = rapid.SampledFrom([]string{"none", "allfalse", "random", "alltrue"}).Draw(rt, "prior")
				if c.Prior == "random" {
					c.PMask = make([]bool, n)
					for i := range c.PMask {
						c.PMask[i] = rapid.Bool().Draw(rt, "pm")
					}
				}
				return c
			})
		}
	}
	// every mask over <= 10 elements
	shapes := [][]int{{}, {1}, {4}, {1, 4}, {4, 1}, {2, 3}, {3, 3}, {2, 2, 2}, {1, 2, 3}}
	if thorough() {
		shapes = append(shapes, []int{10}, []int{2, 5}, []int{5, 2})
	}
	for _, shape := range shapes {
		for _, root := range []string{"rm", "cmraw"} {
			shape, root := shape, root
			cell(t, "C15", "C15.allmasks", fmt.Sprintf("allmasks/%v/%s", shape, root), 1, func(rt *rapid.T) Case {
				return &C15AllMasks{Shape: shape, Root: root}
			})
		}
	}
	// the inspection functions on masked tensors that are lazily transposed or views
	for _, lk := range []string{"lazyT", "sliced", "leadsliced", "slicedT", "cmraw+lazyT", "picked"} {
		lk := lk
		cell(t, "C15", "C15.inspect", "inspect-layout/"+lk, nCases(60, 1500), func(rt *rapid.T) Case {
			shape := genShapeMin2(rt, 2, 3, 3, "s")
			c := &C15Inspect{Shape: shape, Mask: make([]bool, prod(shape)), L: genLayoutKind(rt, lk, len(shape), "l")}
			for i := range c.Mask {
				c.Mask[i] = rapid.IntRange(0, 2).Draw(rt, "m") == 0
			}
			c.DT = rapid.SampledFrom([]string{"", "", "int8", "uint8", "int64", "float32", "float64", "complex64", "string", "bool", "uint32"}).Draw(rt, "dt")
			return c
		})
	}
	// single bits through every kind of handle
	for _, lk := range []string{"contig", "cmraw", "lazyT", "sliced", "leadsliced", "stepsliced", "slicedT", "cmraw+lazyT", "picked", "clonedview", "materialized"} {
		lk := lk
		cell(t, "C15", "C15.set", "set/"+lk, nCases(40, 1000), func(rt *rapid.T) Case {
			shape := genShapeMin2(rt, 1, 3, 4, "s")
			c := &C15Set{Shape: shape, Mask: make([]bool, prod(shape)), L: genLayoutKind(rt, lk, len(shape), "l")}
			for i := range c.Mask {
				c.Mask[i] = rapid.IntRange(0, 2).Draw(rt, "m") == 0
			}
			c.K = rapid.IntRange(0, 1000).Draw(rt, "k")
			c.V = rapid.Bool().Draw(rt, "v")
			if rapid.IntRange(0, 3).Draw(rt, "badq") == 0 {
				c.Bad = rapid.IntRange(1, 4).Draw(rt, "bad")
			}
			return c
		})
	}
	// masks carried through transposition, slicing and copying
	for _, op := range []string{"T", "Transpose", "SafeT", "Slice", "Materialize", "Clone", "ViewTranspose", "T+Materialize", "T+Clone", "T+Copy"} {
		op := op
		cell(t, "C15", "C15.carry", "carry/"+op, nCases(100, 3000), func(rt *rapid.T) Case {
			shape := genShapeMin2(rt, 1, 3, 4, "s")
			c := &C15Carry{Shape: shape, Op: op, Mask: make([]bool, prod(shape)), DT: rapid.SampledFrom([]string{"", "", "int8", "float32", "float64", "complex128", "string"}).Draw(rt, "dt")}
			for i := range c.Mask {
				c.Mask[i] = rapid.Bool().Draw(rt, "m")
			}
			switch op {
			case "T", "Transpose", "SafeT", "ViewTranspose", "T+Materialize", "T+Clone", "T+Copy":
				c.Perm = genPerm(rt, len(shape), "perm")
			case "Slice", "Materialize":
				for i, dim := range shape {
					a := rapid.IntRange(0, dim-1).Draw(rt, fmt.Sprintf("a%d", i))
					bb := rapid.IntRange(a+1, dim).Draw(rt, fmt.Sprintf("b%d", i))
					if bb-a == 1 && dim > 1 { // keep >= 2 entries so that no axis is dropped
						if a > 0 {
							a--
						} else {
							bb++
						}
					}
					c.Specs = append(c.Specs, SpecJ{K: "rng", A: a, B: bb, S: 1})
				}
			}
			return c
		})
	}
	// masked operands in the elementwise operation matrix
	for _, op := range []string{"Add", "Sub", "Mul", "Div", "Mod", "Lt", "ElEq", "Neg", "Square"} {
		for _, d := range []DT{dtInt32, dtF64, dtUint8, dtF32, dtInt8, dtUint16, dtInt64} {
			op, d := op, d
			cell(t, "C15", "EW", "masked-op/"+op+"/"+d.Name, nCases(30, 600), func(rt *rapid.T) Case {
				return genMaskedOp(rt, op, d)
			})
		}
	}
	// ... and every other elementwise operation, the element type drawn per case (each has a masked kernel
	// per type and variant)
	for _, op := range []string{"Gt", "Gte", "Lte", "ElNe", "Pow", "MinBetween", "MaxBetween", "Abs", "Sign", "Cube", "Inv", "Sqrt", "Exp", "Tanh", "Add", "Sub", "Mul", "Div", "Lt", "ElEq", "Neg", "Square"} {
		op := op
		cell(t, "C15", "EW", "masked-op/"+op+"/any-type", nCases(40, 900), func(rt *rapid.T) Case {
			fam := "arith"
			switch op {
			case "Gt", "Gte", "Lte", "ElNe", "Lt", "ElEq":
				fam = "cmp"
			case "Abs", "Sign", "Cube", "Inv", "Sqrt", "Exp", "Tanh", "Neg", "Square":
				fam = "unary"
			}
			var ok []DT
			for _, d := range numDTs {
				if opSupports(fam, op, d) && !(fam == "cmp" && d.IsComplex()) {
					ok = append(ok, d)
				}
			}
			return genMaskedOp(rt, op, rapid.SampledFrom(ok).Draw(rt, "dt"))
		})
	}
}

// genMaskedOp: one elementwise operation on masked operands.
func genMaskedOp(rt *rapid.T, op string, d DT) Case {
	{
		{
			{
				var c *EWCase
				lay := []string{"contig", "lazyT"}
				switch op {
				case "Gt", "Gte", "Lte", "ElNe":
					c = genCmpCase(rt, "C15", op, d, rapid.SampledFrom([]string{"TT", "TS"}).Draw(rt, "form"), "pkg", "safe", false, lay)
					// the same-type kernels too: result in the operand's type, in place, or into a reuse tensor
					switch rapid.IntRange(0, 5).Draw(rt, "cmpmode") {
					case 0:
						c.SameType = true
					case 1:
						c.Mode, c.SameType = "unsafe", true
					case 2:
						c.Mode, c.SameType = "reuse", true
						c.Dst = genDst(rt, c.A.Shape, d, "dst")
						c.Dst.L = Layout{Root: "rm"}
					}
				case "Abs", "Sign", "Cube", "Inv", "Sqrt", "Exp", "Tanh":
					c = genUnaryCase(rt, "C15", op, d, "safe", lay)
				case "Lt", "ElEq":
					c = genCmpCase(rt, "C15", op, d, rapid.SampledFrom([]string{"TT", "TS"}).Draw(rt, "form"), "pkg", "safe", false, lay)
					switch rapid.IntRange(0, 7).Draw(rt, "cmpmode") {
					case 0:
						c.SameType = true
					case 1:
						c.Mode, c.SameType = "unsafe", true
					case 2:
						c.Mode, c.SameType = "reuse", true
						c.Dst = genDst(rt, c.A.Shape, d, "dst")
						c.Dst.L = Layout{Root: "rm"}
					}
				case "Neg", "Square":
					c = genUnaryCase(rt, "C15", op, d, "safe", lay)
				default:
					c = genArithCase(rt, "C15", op, d, rapid.SampledFrom([]string{"TT", "TS", "ST"}).Draw(rt, "form"), "pkg", "safe", lay)
				}
				n := prod(c.A.Shape)
				c.A.Mask = make([]bool, n)
				for i := range c.A.Mask {
					c.A.Mask[i] = rapid.IntRange(0, 2).Draw(rt, "ma") == 0
				}
				if c.B != nil && rapid.Bool().Draw(rt, "bmasked") {
					c.B.Mask = make([]bool, n)
					for i := range c.B.Mask {
						c.B.Mask[i] = rapid.IntRange(0, 2).Draw(rt, "mb") == 0
						// zero divisors are mostly hidden under the mask: they are not operated on, so no error is due
						if (op == "Div" || op == "Mod") && d.IsInt() && eqVal(decode(d, c.B.Codes[i]), conv(d, 0)) && rapid.IntRange(0, 3).Draw(rt, "hide") > 0 {
							c.B.Mask[i] = true
						}
					}
				}
				if op == "Add" || op == "Sub" || op == "Mul" || op == "Div" || op == "Mod" {
					// the destination modes too (compact destinations)
					if m := rapid.SampledFrom([]string{"safe", "safe", "reuse", "incr"}).Draw(rt, "mmode"); m != "safe" {
						c = withMode(rt, c, m, d)
						c.Dst.L = Layout{Root: "rm"}
						c.Pre = ""
					}
				}
				if inF62(c) {
					rec.Class("excluded:F62")
					avoidF62(c)
				}
				if inF25(c) { // (decided again now that the operand carries a mask)
					rec.Class("excluded:F25")
					c.A.L = Layout{Root: "rm"}
				}
				return c
			}
		}
	}
}

// inF62 is the region of known finding F62: integer Mod with WithReuse where a zero divisor sits at a
// position that is masked in an operand (the reuse tensor carries no mask, so the position is operated on
// and Go's operator panics).
func inF62(c *EWCase) bool {
	d := dtByName(c.DT)
	if c.Op != "Mod" || !d.IsInt() || c.Mode != "reuse" {
		return false
	}
	for k := range c.A.Codes {
		masked := (c.A.Mask != nil && c.A.Mask[k]) || (c.B != nil && c.B.Mask != nil && c.B.Mask[k])
		if !masked {
			continue
		}
		switch c.Form {
		case "TT":
			if eqVal(decode(d, c.B.Codes[k]), conv(d, 0)) {
				return true
			}
		case "TS":
			if eqVal(decode(d, c.Scalar), conv(d, 0)) {
				return true
			}
		case "ST":
			if eqVal(decode(d, c.A.Codes[k]), conv(d, 0)) {
				return true
			}
		}
	}
	return false
}

func avoidF62(c *EWCase) {
	d := dtByName(c.DT)
	fix := func(codes []int64) {
		for k := range codes {
			if eqVal(decode(d, codes[k]), conv(d, 0)) {
				codes[k] = 1
			}
		}
	}
	switch c.Form {
	case "TT":
		fix(c.B.Codes)
	case "TS":
		c.Scalar = 1
	default:
		fix(c.A.Codes)
	}
}
