package props

import (
	"fmt"
	"reflect"
	"testing"

	"gorgonia.org/tensor"
	"pgregory.net/rapid"
)

// Apply: a user function mapped over every element (part of C12, modes of C07).

type ApplyCase struct {
	DT   string `json:"dt"`
	A    Opnd   `json:"a"`
	Mode string `json:"mode"` // safe | unsafe | reuse | incr
	Sig  string `json:"sig"`  // plain: func(T) T ; err: func(T) (T, error)
	Dst  *Opnd  `json:"dst,omitempty"`
}

func init() { register("C12.apply", func() Case { return &ApplyCase{} }) }

func (c *ApplyCase) NTKey() string {
	if prod(c.A.Shape) < 2 {
		return ""
	}
	if c.Mode == "safe" && c.A.L.IsContig() {
		return ""
	}
	return fmt.Sprintf("%s|%s|%s|%v|%v|%v", c.DT, c.Mode, c.Sig, c.A.Shape, c.A.L, layoutOf(c.Dst))
}

// applyModel is the non-constant function of the element used by the check.
func applyModel(d DT, v interface{}) interface{} {
	switch x := v.(type) {
	case bool:
		return !x
	case string:
		return x + "!"
	case uintptr:
		return x*3 + 1
	}
	m, _ := binop("Mul", v, conv(d, 3))
	r, _ := binop("Add", m, conv(d, 1))
	return r
}

func applyFunc(d DT, sig string) interface{} {
	T := d.T.Type
	errT := reflect.TypeOf((*error)(nil)).Elem()
	out := []reflect.Type{T}
	if sig == "err" {
		out = append(out, errT)
	}
	ft := reflect.FuncOf([]reflect.Type{T}, out, false)
	return reflect.MakeFunc(ft, func(args []reflect.Value) []reflect.Value {
		r := reflect.ValueOf(applyModel(d, args[0].Interface()))
		if sig == "err" {
			return []reflect.Value{r, reflect.Zero(errT)}
		}
		return []reflect.Value{r}
	}).Interface()
}

func (c *ApplyCase) Run() string {
	d := dtByName(c.DT)
	A, msg := buildOpnd(&c.A, d)
	if msg != "" {
		return msg
	}
	var Dst *opndB
	var opts []tensor.FuncOpt
	switch c.Mode {
	case "unsafe":
		opts = append(opts, tensor.UseUnsafe())
	case "reuse", "incr":
		if Dst, msg = buildOpnd(c.Dst, d); msg != "" {
			return msg
		}
		if c.Mode == "reuse" {
			opts = append(opts, tensor.WithReuse(Dst.b.T))
		} else {
			opts = append(opts, tensor.WithIncr(Dst.b.T))
		}
	}
	var res tensor.Tensor
	var lerr error
	pan := try(func() { res, lerr = A.b.T.Apply(applyFunc(d, c.Sig), opts...) })
	desc := fmt.Sprintf("Apply(%s, sig %s, mode %s) a=%v%v dst=%v", c.DT, c.Sig, c.Mode, c.A.Shape, c.A.L, layoutOf(c.Dst))
	if pan != "" {
		return desc + " panicked: " + pan
	}
	if lerr != nil {
		if Dst != nil && Dst.b.HasGaps() {
			rec.Class("refused:destination-with-gaps")
			return ""
		}
		if c.Mode == "incr" && !d.IsNum() {
			rec.Class("refused:incr-non-numeric")
			return ""
		}
		if c.A.L.Final == "clone" && A.b.HasGaps() {
			// an operand that owns non-contiguous storage (a clone of a strided view): Apply clones it as its
			// destination and refuses that destination; a refusal, nothing may have changed
			rec.Class("refused:operand-owning-gaps")
			return A.unchanged("the operand of a refused Apply")
		}
		return desc + " refused: " + lerr.Error()
	}
	want := A.arr.Map(func(v interface{}) interface{} { return applyModel(d, v) })
	if c.Mode == "incr" {
		if !d.IsNum() {
			return "" // nothing is stated about adding into non-numeric tensors
		}
		for k := range want.E {
			want.E[k], _ = binop("Add", Dst.arr.E[k], want.E[k])
		}
	}
	rd, ok := res.(*tensor.Dense)
	if !ok || rd == nil {
		return desc + fmt.Sprintf(" returned %T", res)
	}
	dest := A
	switch c.Mode {
	case "safe":
		if rd == A.b.T {
			return desc + ": safe mode returned the operand"
		}
		dest = nil
	case "reuse", "incr":
		dest = Dst
	}
	if dest != nil && rd != dest.b.T {
		return desc + ": returned tensor is not the designated destination"
	}
	if m := compareAt(rd, want, eqVal); m != "" {
		return desc + ": result: " + m
	}
	if dest != A {
		if m := A.unchanged("operand"); m != "" {
			return desc + ": " + m
		}
	}
	if dest != nil && !dest.b.Detached && !dest.b.CoversRoot() {
		cur := readAll(dest.b.T)
		if diff := dest.b.FrameDiff(dest.b.ExpectRoot(cur)); diff != "" {
			return desc + ": destination's parent outside the view: " + diff
		}
	}
	return ""
}

// inF19 is the region of known finding F19b: Apply with an increment tensor.
func inF19(c *ApplyCase) bool { return c.Mode == "incr" }

func c12ApplyCells(t *testing.T) {
	for _, d := range allDTs {
		if d.Name == "unsafe.Pointer" {
			continue
		}
		for _, mode := range []string{"safe", "unsafe", "reuse", "incr"} {
			for _, sig := range []string{"plain", "err"} {
				d, mode, sig := d, mode, sig
				cell(t, "C12", "C12.apply", "Apply/"+d.Name+"/"+mode+"/"+sig, nCases(10, 200), func(rt *rapid.T) Case {
					shape := ewShape(rt)
					lo, hi := valueRange(d)
					c := &ApplyCase{DT: d.Name, Mode: mode, Sig: sig}
					c.A = genOpnd(rt, shape, rapid.SampledFrom(c06LayoutKinds).Draw(rt, "la"), lo, hi, 10, "a")
					if mode == "reuse" || mode == "incr" {
						c.Dst = genDst(rt, shape, d, "dst")
					}
					if inF19(c) {
						rec.Class("excluded:F19")
						c.Mode = "reuse"
					}
					return c
				})
				// tensors with exactly one element (the kernels of every type branch on them)
				cell(t, "C12", "C12.apply", "Apply/"+d.Name+"/"+mode+"/"+sig+"/one-element", nCases(2, 20), func(rt *rapid.T) Case {
					shape := rapid.SampledFrom([][]int{{1}, {1, 1}, {1, 1, 1}}).Draw(rt, "shape1")
					lo, hi := valueRange(d)
					c := &ApplyCase{DT: d.Name, Mode: mode, Sig: sig}
					c.A = genOpnd(rt, shape, "contig", lo, hi, 10, "a")
					if mode == "reuse" || mode == "incr" {
						c.Dst = genDst(rt, shape, d, "dst")
						c.Dst.L = Layout{Root: "rm"}
					}
					if inF19(c) {
						rec.Class("excluded:F19")
						c.Mode = "reuse"
					}
					return c
				})
			}
		}
	}
}
