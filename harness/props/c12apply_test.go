package props

import "testing"

func c12ApplyCells(t *testing.T) {}
