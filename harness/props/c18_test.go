package props

import (
	"bytes"
	"fmt"
	"os"
	"runtime"
	"strings"
	"sync"
	"testing"

	"gorgonia.org/tensor"
	"pgregory.net/rapid"
)

// C18 — concurrent use of distinct or read-only tensors is race-free and deterministic.
//
// Built with -race. A case is a set of shared read-only tensors plus one
// generated program per goroutine. Every program is first run alone
// (sequential oracle), then all run concurrently behind a start barrier; the
// per-operation results must be the same, the shared tensors must be bit-identical
// afterwards, and the race detector's log must not have grown.

type C18Op struct {
	Op     string `json:"op"`
	Shared int    `json:"shared"` // index of the shared tensor read
	Other  int    `json:"other"`  // second operand: shared index, or -1 for the goroutine's private tensor
	Arg    int    `json:"arg"`
	Yield  bool   `json:"yield"`
}

type C18Case struct {
	Shapes  [][]int  `json:"shapes"`
	Layouts []Layout `json:"layouts"`
	Float   []bool   `json:"float"`
	DTs     []string `json:"dts,omitempty"` // per shared tensor: another element type ("" = int32/float64 by Float)
	// Decoded: the shared tensor is not the constructed one but what a protobuf round trip of it gives (a
	// tensor filled in by a decoder, not by the constructor: some lazily set fields are still unset)
	Decoded  []bool    `json:"decoded,omitempty"`
	Masked   []bool    `json:"masked,omitempty"` // per shared tensor: it carries a mask (every third element)
	Progs    [][]C18Op `json:"programs"`
	MaxProcs int       `json:"gomaxprocs"`
	Repeat   int       `json:"repeat"`
}

func init() { register("C18.concurrent", func() Case { return &C18Case{} }) }

func (c *C18Case) NTKey() string {
	if len(c.Progs) < 2 {
		return ""
	}
	touched := map[int]int{}
	for _, p := range c.Progs {
		seen := map[int]bool{}
		for _, o := range p {
			switch o.Op {
			case "Iterate", "MultIterate", "MinBetweenScalar", "MaxBetweenScalar", "Add", "Lt", "Sum", "Argmax", "Argmin", "ArgAll", "Min", "MatMul", "Dot", "Materialize", "Slice", "Inner", "Clone":
				seen[o.Shared] = true
			}
		}
		for k := range seen {
			touched[k]++
		}
	}
	for _, n := range touched {
		if n >= 2 {
			return fmt.Sprintf("%v|%v|%v|%d", c.Shapes, c.Layouts, c.Progs, c.MaxProcs)
		}
	}
	return ""
}

var c18SharedOps = []string{"At", "Slice", "Iterate", "MultIterate", "PrivateNpy", "PrivateSprintBig", "MinBetweenScalar", "MaxBetweenScalar", "Add", "AddShared", "AddScalar", "ScalarSub", "LtScalar", "Lt", "Sum", "Max", "Min", "Argmax", "Argmin", "ArgAll", "PrivateRefused", "PrivateReuse", "PrivateRefused", "PrivateOneElement", "PrivateOneElement", "PrivateScalarOp", "PkgTranspose", "PrivateTranspose", "PrivateTranspose", "PrivateProduct", "Inner", "MatVecMul", "MatMul", "Dot", "TensorMul", "Clone", "Materialize", "Sprint", "T-safe", "Repeat", "Stack", "Apply", "PrivateUnsafe", "PrivateReturn", "PrivateScalarOther", "PrivateTensorMul"}

// runOp performs one operation and returns a digest of what it delivered.
func c18RunOp(o C18Op, shared []*tensor.Dense, sharedM []Arr, priv **tensor.Dense) (out string) {
	s := shared[o.Shared%len(shared)]
	m := sharedM[o.Shared%len(shared)]
	isF := s.Dtype() == tensor.Float64
	dig := func(t tensor.Tensor, err error) string {
		if err != nil {
			return "err"
		}
		if dt, ok := t.(*tensor.Dense); ok && dt.IsMasked() {
			return fmt.Sprint(t.Shape(), readAll(t), maskBits(dt))
		}
		return fmt.Sprint(t.Shape(), readAll(t))
	}
	fresh := func(shape []int, base int64) *tensor.Dense {
		d := dtByName(s.Dtype().String())
		a := seqArr(d, shape, base)
		return tensor.New(tensor.WithShape(shape...), tensor.WithBacking(mkBacking(d, a.E)))
	}
	defer func() {
		if r := recover(); r != nil {
			out = "panic" // (an operation that panics does so alone as well: the oracle records the same)
			rec.Class("op-panicked:" + o.Op)
		}
	}()
	switch o.Op {
	case "At":
		return fmt.Sprint(readAll(s))
	case "Slice":
		if len(m.Shape) == 0 || m.Shape[0] < 2 {
			return "-"
		}
		v, err := s.Slice(RS{0, 1 + o.Arg%(m.Shape[0]-1) + 1, 1})
		if err != nil {
			return "err"
		}
		return fmt.Sprint(readAll(v))
	case "Iterate":
		it := s.Iterator()
		var offs []int
		for i, err := it.Next(); err == nil; i, err = it.Next() {
			offs = append(offs, i)
		}
		return fmt.Sprint(offs)
	case "MultIterate":
		// a multi-iterator over the shared tensor and a private one of the same shape
		if len(m.Shape) == 0 {
			return "-"
		}
		other := fresh(m.Shape, 0)
		if len(m.Shape) == 1 && o.Arg%2 == 0 {
			other = fresh([]int{m.Shape[0], 1}, 0) // the same vector in another form
		}
		var it *tensor.MultIterator
		if len(other.Shape()) != len(m.Shape) {
			it = tensor.MultIteratorFromDense(other, s) // (the operand of the higher rank has to come first)
		} else {
			it = tensor.MultIteratorFromDense(s, other)
		}
		var offs []int
		for _, err := it.Next(); err == nil; _, err = it.Next() {
			offs = append(offs, it.LastIndex(0), it.LastIndex(1))
		}
		return fmt.Sprint(offs)
	case "PrivateNpy":
		// a private tensor goes through a private .npy stream
		p := fresh([]int{2, 1 + o.Arg%3}, int64(o.Arg%5))
		if p.Dtype() == tensor.String {
			return "-"
		}
		var buf bytes.Buffer
		if err := p.WriteNpy(&buf); err != nil {
			return "err"
		}
		q := new(tensor.Dense)
		return dig(q, q.ReadNpy(&buf))
	case "Add":
		return dig(tensor.Add(s, fresh(m.Shape, int64(o.Arg%7))))
	case "AddShared":
		return dig(tensor.Add(s, s))
	case "AddScalar", "ScalarSub", "LtScalar":
		sc := conv(dtByName(s.Dtype().String()), int64(o.Arg%5+1))
		switch o.Op {
		case "AddScalar":
			return dig(tensor.Add(s, sc))
		case "ScalarSub":
			return dig(tensor.Sub(sc, s))
		}
		return dig(tensor.Lt(s, sc))
	case "TensorMul":
		if !isF || len(m.Shape) < 2 {
			return "-"
		}
		v := fresh([]int{m.Shape[len(m.Shape)-1], 2}, 1)
		return dig(s.TensorMul(v, []int{len(m.Shape) - 1}, []int{0}))
	case "PrivateScalarOther":
		// scalar arithmetic on element types of other sizes (each has its own lazily created buffer pool)
		switch o.Arg % 4 {
		case 0:
			p := tensor.New(tensor.WithShape(3), tensor.WithBacking([]int8{1, 2, 3}))
			return dig(tensor.Add(p, int8(2)))
		case 1:
			p := tensor.New(tensor.WithShape(3), tensor.WithBacking([]int16{1, 2, 3}))
			return dig(tensor.Mul(int16(2), p))
		case 2:
			p := tensor.New(tensor.WithShape(2), tensor.WithBacking([]complex128{1, 2i}))
			return dig(tensor.Add(p, complex(1, 1)))
		}
		p := tensor.New(tensor.WithShape(2), tensor.WithBacking([]float32{1, 2}))
		return dig(tensor.Sub(p, float32(1)))
	case "PrivateTensorMul":
		a := fresh([]int{2, 3, 2}, int64(o.Arg%3))
		b := fresh([]int{2, 2}, 1)
		if !isF {
			return "-"
		}
		return dig(a.TensorMul(b, []int{2}, []int{0}))
	case "Lt":
		return dig(tensor.Lt(s, fresh(m.Shape, int64(o.Arg%7))))
	case "Sum":
		if len(m.Shape) == 0 {
			return "-"
		}
		return dig(s.Sum(o.Arg % len(m.Shape)))
	case "Max":
		return dig(s.Max())
	case "Argmax":
		if len(m.Shape) == 0 {
			return "-"
		}
		return dig(s.Argmax(o.Arg % len(m.Shape)))
	case "Inner":
		if !isF {
			return "-"
		}
		v := fresh([]int{prod(m.Shape)}, 1)
		flat := s
		if len(m.Shape) != 1 {
			return "-"
		}
		r, err := flat.Inner(v)
		return fmt.Sprint(r, err != nil)
	case "MatVecMul":
		if !isF || len(m.Shape) != 2 {
			return "-"
		}
		return dig(s.MatVecMul(fresh([]int{m.Shape[1]}, 1)))
	case "MatMul":
		if !isF || len(m.Shape) != 2 {
			return "-"
		}
		return dig(s.MatMul(fresh([]int{m.Shape[1], 2}, 1)))
	case "Dot":
		if !isF || len(m.Shape) == 0 {
			return "-"
		}
		// vector . shared: the dispatch that used to transpose its operand in place
		if len(m.Shape) == 2 {
			return dig(tensor.Dot(fresh([]int{m.Shape[0]}, 1), s))
		}
		return dig(tensor.Dot(s, fresh([]int{m.Shape[len(m.Shape)-1]}, 1)))
	case "Clone":
		return fmt.Sprint(readAll(s.Clone().(*tensor.Dense)))
	case "Materialize":
		return fmt.Sprint(readAll(s.Materialize()))
	case "Sprint":
		return fmt.Sprint(s)
	case "PrivateSprintBig":
		// a private tensor with more rows than are printed: the formatter elides in the middle
		p := fresh([]int{10 + o.Arg%4, 2 + o.Arg%2}, int64(o.Arg%7))
		return fmt.Sprintf("%v|%s|%+v", p, p, p)
	case "MinBetweenScalar", "MaxBetweenScalar":
		var sc interface{} = int32(o.Arg%5 + 1)
		if isF {
			sc = float64(o.Arg%5 + 1)
		}
		if o.Op == "MinBetweenScalar" {
			return dig(tensor.MinBetween(s, sc))
		}
		return dig(tensor.MaxBetween(s, sc))
	case "T-safe":
		return dig(s.SafeT())
	case "Repeat":
		if len(m.Shape) == 0 {
			return "-"
		}
		return dig(s.Repeat(o.Arg%len(m.Shape), 2))
	case "Stack":
		return dig(s.Stack(0, s))
	case "Apply":
		if !isF {
			return "-"
		}
		return dig(s.Apply(func(x float64) float64 { return 2*x + 1 }))
	case "PrivateUnsafe":
		// arbitrary operations on a tensor only this goroutine knows
		p := *priv
		if p == nil {
			p = fresh([]int{2, 3}, int64(o.Arg%5))
			*priv = p
		}
		r, err := tensor.Add(p, p, tensor.UseUnsafe())
		return dig(r, err)
	case "Argmin":
		if len(m.Shape) == 0 {
			return "-"
		}
		return dig(s.Argmin(o.Arg % len(m.Shape)))
	case "ArgAll":
		if o.Arg%2 == 0 {
			return dig(s.Argmax(tensor.AllAxes))
		}
		return dig(s.Argmin(tensor.AllAxes))
	case "Min":
		if len(m.Shape) == 0 {
			return "-"
		}
		return dig(s.Min(o.Arg % len(m.Shape)))
	case "PrivateRefused":
		// a call that is refused (a reuse tensor of the wrong size / element type), on tensors only this goroutine
		// knows; now and then tensors of one of the specialised engines
		a, b2 := fresh([]int{2, 3}, int64(o.Arg%5)), fresh([]int{2, 3}, 3)
		var r *tensor.Dense
		if o.Arg%2 == 0 {
			r = fresh([]int{7}, 1)
		} else {
			r = tensor.New(tensor.Of(tensor.Bool), tensor.WithShape(2, 3))
		}
		switch o.Arg % 3 {
		case 1:
			a, b2 = engFresh("f32", []int{2, 3}, int64(o.Arg%5)), engFresh("f32", []int{2, 3}, 3)
			if o.Arg%2 == 0 {
				r = engFresh("f32", []int{7}, 1)
			}
		case 2:
			a, b2 = engFresh("f64", []int{2, 3}, int64(o.Arg%5)), engFresh("f64", []int{2, 3}, 3)
			if o.Arg%2 == 0 {
				r = engFresh("f64", []int{7}, 1)
			}
		}
		var err error
		switch (o.Arg / 3) % 4 {
		case 1:
			// the products have their own option handling
			x, y := engFresh("f64", []int{2}, 1), engFresh("f64", []int{3}, 2)
			_, err = x.Outer(y, tensor.WithReuse(engFresh("f64", []int{5}, 0)))
		case 2:
			x, y := engFresh("f64", []int{2, 2}, 1), engFresh("f64", []int{2, 2}, 2)
			_, err = x.MatMul(y, tensor.WithReuse(engFresh("f64", []int{3}, 0)))
		case 3:
			x, y := engFresh("f64", []int{2, 2}, 1), engFresh("f64", []int{2}, 2)
			_, err = x.MatVecMul(y, tensor.WithReuse(engFresh("f64", []int{3}, 0)))
		default:
			_, err = tensor.Add(a, b2, tensor.WithReuse(r))
		}
		if err == nil {
			return "accepted"
		}
		return "refused"
	case "PrivateProduct":
		// products with both a reuse and an increment tensor, on private tensors
		x, y := engFresh("f64", []int{2, 2}, int64(o.Arg%4)), engFresh("f64", []int{2}, 2)
		inc := engFresh("f64", []int{2}, 100)
		res, err := x.MatVecMul(y, tensor.WithIncr(inc))
		if err == nil && res != inc {
			return "result is not the increment tensor"
		}
		return dig(inc, err)
	case "PrivateTranspose":
		// a physical transposition of a private tensor (the data movers keep their temporaries to themselves)
		d := []DT{dtF64, dtInt32, dtInt16, dtInt8, dtC128, dtF32}[o.Arg%6]
		pa := seqArr(d, []int{2, 3, 2}, int64(o.Arg%5))
		p := tensor.New(tensor.WithShape(2, 3, 2), tensor.WithBacking(mkBacking(d, pa.E)))
		if err := p.T(1, 2, 0); err != nil {
			return "err"
		}
		return dig(p, p.Transpose())
	case "PrivateReuse":
		a, b2, r := fresh([]int{2, 3}, int64(o.Arg%5)), fresh([]int{2, 3}, int64(o.Arg%3)), fresh([]int{2, 3}, 9)
		if e := []string{"", "f32", "f64", ""}[(o.Arg/2)%4]; e != "" {
			a, b2, r = engFresh(e, []int{2, 3}, int64(o.Arg%5)), engFresh(e, []int{2, 3}, int64(o.Arg%3)), engFresh(e, []int{2, 3}, 9)
		}
		var res tensor.Tensor
		var err error
		if o.Arg%2 == 0 {
			res, err = tensor.Add(a, b2, tensor.WithReuse(r))
		} else {
			res, err = tensor.Sub(a, b2, tensor.WithIncr(r))
		}
		if err == nil && res != tensor.Tensor(r) {
			return "result is not the destination"
		}
		return dig(r, err) + fmt.Sprint(readAll(a), readAll(b2))
	case "PrivateOneElement":
		// a tensor of one element next to a Go scalar: the kernels and the scalar headers take a path of their own
		d := dtByName(s.Dtype().String())
		if !d.IsNum() || d.IsComplex() {
			d = dtInt32
		}
		pa := seqArr(d, []int{1}, int64(o.Arg%4))
		p := tensor.New(tensor.WithShape([]int{1, 1}[:1+o.Arg%2]...), tensor.WithBacking(mkBacking(d, pa.E)))
		sc := conv(d, int64(o.Arg%3))
		var opts []tensor.FuncOpt
		if o.Arg%5 == 0 {
			opts = append(opts, tensor.AsSameType())
		}
		fns := []func(a, b interface{}, opts ...tensor.FuncOpt) (tensor.Tensor, error){tensor.Gte, tensor.Gt, tensor.Lte, tensor.Lt, tensor.ElEq, tensor.ElNe, tensor.Add, tensor.Sub, tensor.Mul, tensor.Div}
		f := fns[o.Arg%len(fns)]
		if o.Arg%2 == 0 {
			return dig(f(p, sc, opts...))
		}
		return dig(f(sc, p, opts...))
	case "PrivateScalarOp":
		d := dtByName(s.Dtype().String())
		if !d.IsNum() {
			d = dtF32
		}
		pa := seqArr(d, []int{2, 2}, int64(o.Arg%4))
		p := tensor.New(tensor.WithShape(2, 2), tensor.WithBacking(mkBacking(d, pa.E)))
		sc := conv(d, int64(1+o.Arg%3))
		switch o.Arg % 4 {
		case 0:
			return dig(tensor.Mul(p, sc))
		case 1:
			return dig(tensor.ElNe(p, sc))
		case 2:
			return dig(tensor.ElEq(sc, p))
		}
		return dig(tensor.Sub(sc, p))
	case "PkgTranspose":
		if len(m.Shape) < 2 {
			return "-"
		}
		return dig(tensor.Transpose(s))
	case "PrivateReturn":
		p := fresh([]int{2, 2}, int64(o.Arg%5))
		v, _ := p.Slice(RS{0, 1, 1})
		_ = v
		p.T()
		p.UT()
		tensor.ReturnTensor(p)
		return "returned"
	}
	panic("HARNESS: unknown C18 op " + o.Op)
}

// maskBits reads a masked tensor's mask in logical order.
func maskBits(t *tensor.Dense) []bool {
	var out []bool
	if t.IsScalar() {
		return t.Mask()
	}
	for _, cc := range coordsOf([]int(t.Shape())) {
		b, _ := t.MaskAt(cc...)
		out = append(out, b)
	}
	return out
}

// engFresh: a private tensor of one of the specialised engines.
func engFresh(eng string, shape []int, base int64) *tensor.Dense {
	d := engDT(eng)
	a := seqArr(d, shape, base)
	t := tensor.New(tensor.WithShape(shape...), tensor.WithBacking(mkBacking(d, a.E)))
	withEngine(t, eng)
	return t
}

var raceLogOffset int64

func raceLogGrowth() string {
	prefix := os.Getenv("VERIF_RACE_LOG")
	if prefix == "" {
		return ""
	}
	path := fmt.Sprintf("%s.%d", prefix, os.Getpid())
	b, err := os.ReadFile(path)
	if err != nil {
		return ""
	}
	if int64(len(b)) <= raceLogOffset {
		return ""
	}
	txt := string(b[raceLogOffset:])
	raceLogOffset = int64(len(b))
	return txt
}

func (c *C18Case) Run() string {
	if c.MaxProcs > 0 {
		defer runtime.GOMAXPROCS(runtime.GOMAXPROCS(c.MaxProcs))
	}
	var shared []*tensor.Dense
	var sharedM []Arr
	var builts []*Built
	for i, shp := range c.Shapes {
		d := dtInt32
		if c.Float[i] {
			d = dtF64
		}
		if i < len(c.DTs) && c.DTs[i] != "" {
			d = dtByName(c.DTs[i])
		}
		arr := seqArr(d, shp, int64(i)*3+1)
		var mask []bool
		if i < len(c.Masked) && c.Masked[i] && len(shp) > 0 {
			mask = make([]bool, len(arr.E))
			for k := range mask {
				mask[k] = k%3 == 0
			}
		}
		b, err := Build(arr, c.Layouts[i], mask)
		if err != nil {
			return inconclusive
		}
		if i < len(c.Decoded) && c.Decoded[i] && d.Name != "string" {
			if enc, err := b.T.PBEncode(); err == nil {
				dec := new(tensor.Dense)
				if err := dec.PBDecode(enc); err == nil && compareAt(dec, arr, bitEqVal) == "" {
					b.T = dec
					b.Detached = true
				}
			}
		}
		shared = append(shared, b.T)
		sharedM = append(sharedM, arr)
		builts = append(builts, b)
	}
	metas := make([]string, len(shared))
	for i, s := range shared {
		metas[i] = metaOf(s)
	}
	raceLogGrowth() // discard anything reported before this case
	// The concurrent runs come FIRST, on pools as cold as in a fresh process (resetLib ran at the
	// top of the case): lazily created library state is then created under contention. The
	// sequential oracle is computed afterwards; results are values, so the order does not matter.
	var want [][]string
	sequential := func() string {
		want = make([][]string, len(c.Progs))
		for g, prog := range c.Progs {
			var priv *tensor.Dense
			for _, o := range prog {
				want[g] = append(want[g], c18RunOp(o, shared, sharedM, &priv))
			}
		}
		if txt := raceLogGrowth(); txt != "" {
			return "HARNESS: race reported during the sequential run: " + oneLine(txt)
		}
		return ""
	}
	var gots [][][]string
	reps := c.Repeat
	if reps < 1 {
		reps = 1
	}
	for rep := 0; rep < reps; rep++ {
		got := make([][]string, len(c.Progs))
		var wg sync.WaitGroup
		start := make(chan struct{})
		for g, prog := range c.Progs {
			wg.Add(1)
			go func(g int, prog []C18Op) {
				defer wg.Done()
				var priv *tensor.Dense
				<-start
				for _, o := range prog {
					if o.Yield {
						runtime.Gosched()
					}
					got[g] = append(got[g], c18RunOp(o, shared, sharedM, &priv))
				}
			}(g, prog)
		}
		close(start)
		wg.Wait()
		desc := fmt.Sprintf("shared %v %v, %d goroutines, GOMAXPROCS %d, programs %v", c.Shapes, c.Layouts, len(c.Progs), c.MaxProcs, progNames(c.Progs))
		if txt := raceLogGrowth(); txt != "" {
			return "the race detector reported a data race: " + summariseRace(txt) + " | " + desc
		}
		gots = append(gots, got)
		if rep == reps-1 {
			if m := sequential(); m != "" {
				return m
			}
		} else {
			continue
		}
		for _, got := range gots {
			for g := range want {
				for k := range want[g] {
					if k >= len(got[g]) || got[g][k] != want[g][k] {
						gv := "<missing>"
						if k < len(got[g]) {
							gv = got[g][k]
						}
						return fmt.Sprintf("goroutine %d op %d (%s) delivered %s when run concurrently but %s when run alone | %s", g, k, c.Progs[g][k].Op, gv, want[g][k], desc)
					}
				}
			}
		}
		for i, s := range shared {
			if m := compareAt(s, sharedM[i], bitEqVal); m != "" {
				return fmt.Sprintf("shared tensor %d changed: %s | %s", i, m, desc)
			}
			if mm := metaOf(s); mm != metas[i] {
				return fmt.Sprintf("shared tensor %d's metadata changed from %s to %s | %s", i, metas[i], mm, desc)
			}
			if !builts[i].Detached {
				if diff := builts[i].FrameDiff(builts[i].RootE); diff != "" {
					return fmt.Sprintf("shared tensor %d's storage changed: %s | %s", i, diff, desc)
				}
			}
		}
	}
	return ""
}

func progNames(ps [][]C18Op) string {
	var out []string
	for _, p := range ps {
		var n []string
		for _, o := range p {
			n = append(n, fmt.Sprintf("%s(%d)", o.Op, o.Shared))
		}
		out = append(out, "["+strings.Join(n, " ")+"]")
	}
	return strings.Join(out, " ")
}

// summariseRace keeps the library frames of a race report.
func summariseRace(txt string) string {
	var keep []string
	for _, line := range strings.Split(txt, "\n") {
		l := strings.TrimSpace(line)
		if strings.HasPrefix(l, "WARNING") || strings.HasPrefix(l, "Write at") || strings.HasPrefix(l, "Read at") || strings.HasPrefix(l, "Previous") || strings.Contains(l, "gorgonia.org/tensor") {
			keep = append(keep, l)
		}
		if len(keep) > 14 {
			break
		}
	}
	return strings.Join(keep, " / ")
}

func TestC18(t *testing.T) {
	for _, ng := range []int{2, 4, 8, 16} {
		ng := ng
		cell(t, "C18", "C18.concurrent", fmt.Sprintf("goroutines=%d", ng), nCases(40, 700), func(rt *rapid.T) Case {
			c := &C18Case{MaxProcs: rapid.SampledFrom([]int{1, 2, 4, 16}).Draw(rt, "procs"), Repeat: rapid.IntRange(1, 3).Draw(rt, "rep")}
			ns := rapid.IntRange(2, 4).Draw(rt, "nshared")
			for i := 0; i < ns; i++ {
				shape := genShapeMin2(rt, 1, 3, 4, "s")
				c.Shapes = append(c.Shapes, shape)
				c.Layouts = append(c.Layouts, genLayoutKind(rt, rapid.SampledFrom([]string{"contig", "lazyT", "sliced", "contig"}).Draw(rt, "lk"), len(shape), fmt.Sprintf("l%d", i)))
				c.Float = append(c.Float, rapid.IntRange(0, 2).Draw(rt, "float") > 0)
				// now and then an element type of another size (16-byte and string elements take paths of their own)
				c.DTs = append(c.DTs, rapid.SampledFrom([]string{"", "", "", "", "complex128", "string", "int8", "float32", "float32", "int64", "uint16"}).Draw(rt, "dt"))
				c.Decoded = append(c.Decoded, rapid.IntRange(0, 3).Draw(rt, "decoded") == 0)
				c.Masked = append(c.Masked, rapid.IntRange(0, 4).Draw(rt, "masked") == 0)
			}
			for g := 0; g < ng; g++ {
				n := rapid.IntRange(5, 40).Draw(rt, "plen")
				prog := make([]C18Op, n)
				for k := range prog {
					if k == 0 && rapid.Bool().Draw(rt, "npyfirst") {
						// state the library creates on first use is created under contention when every goroutine starts with the same kind of call
						prog[k] = C18Op{Op: "PrivateNpy", Shared: 0, Arg: rapid.IntRange(0, 30).Draw(rt, "arg")}
						continue
					}
					prog[k] = C18Op{Op: rapid.SampledFrom(c18SharedOps).Draw(rt, "op"), Shared: rapid.IntRange(0, ns-1).Draw(rt, "sh"), Arg: rapid.IntRange(0, 30).Draw(rt, "arg"), Yield: rapid.IntRange(0, 3).Draw(rt, "yield") == 0}
				}
				c.Progs = append(c.Progs, prog)
			}
			return c
		})
	}
}
