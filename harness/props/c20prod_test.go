package props

import (
	"fmt"
	"os"
	"strings"
	"testing"

	"gorgonia.org/tensor"
	"pgregory.net/rapid"
)

// C20Prod — the products under a specialised engine deliver bit for bit what the default engine delivers,
// also on values whose sums depend on the order and the precision of the accumulation (a huge and a small
// magnitude next to each other, extremes). No model is involved: the two engines are compared with each
// other on the same operands.
type C20Prod struct {
	Op  string `json:"op"` // Inner | pkgInner | MatVecMul | MatMul | Dot
	Eng string `json:"engine"`
	A   Opnd   `json:"a"`
	B   Opnd   `json:"b"`
}

func init() { register("C20.prod", func() Case { return &C20Prod{} }) }

func (c *C20Prod) NTKey() string {
	return fmt.Sprintf("%s|%s|%v|%v|%v|%v|%v|%v", c.Op, c.Eng, c.A.Shape, c.A.L, c.A.Codes, c.B.Shape, c.B.L, c.B.Codes)
}

func (c *C20Prod) Run() string {
	d := engDT(c.Eng)
	run := func(eng string) ([]interface{}, string, string) {
		A, msg := buildOpnd(&c.A, d)
		if msg != "" {
			return nil, "", msg
		}
		B, msg := buildOpnd(&c.B, d)
		if msg != "" {
			return nil, "", msg
		}
		withEngine(A.b.T, eng)
		withEngine(B.b.T, eng)
		var res interface{}
		var err error
		if p := try(func() {
			switch c.Op {
			case "Inner":
				res, err = A.b.T.Inner(B.b.T)
			case "pkgInner":
				res, err = tensor.Inner(A.b.T, B.b.T)
			case "MatVecMul":
				res, err = A.b.T.MatVecMul(B.b.T)
			case "MatMul":
				res, err = A.b.T.MatMul(B.b.T)
			case "Dot":
				res, err = tensor.Dot(A.b.T, B.b.T)
			}
		}); p != "" {
			return nil, "panic", ""
		}
		if err != nil {
			return nil, "refused", ""
		}
		if t, ok := res.(tensor.Tensor); ok {
			return readAll(t), fmt.Sprint(t.Shape()), ""
		}
		return []interface{}{res}, "value", ""
	}
	mine, kind, msg := run(c.Eng)
	if msg != "" {
		return msg
	}
	ref, rkind, msg := run("")
	if msg != "" {
		return msg
	}
	desc := fmt.Sprintf("%s under engine %q of a=%v%v %s and b=%v%v %s", c.Op, c.Eng, c.A.Shape, c.A.L, fmtVals(decodeAll(d, c.A.Codes)), c.B.Shape, c.B.L, fmtVals(decodeAll(d, c.B.Codes)))
	if kind != rkind {
		return desc + fmt.Sprintf(": the engine delivers %s, the default engine %s", kind, rkind)
	}
	rec.Class("prod:" + kind)
	for k := range ref {
		if k >= len(mine) || !bitEqVal(mine[k], ref[k]) {
			return desc + fmt.Sprintf(": element %d is %s under the engine and %s under the default engine", k, fmtVal(mine[k]), fmtVal(ref[k]))
		}
	}
	return ""
}

func c20ProdCells(t *testing.T) {
	// Only in the pure-Go builds: the assembly kernels of the BLAS library sum in an order that depends on the
	// alignment of the slices they are handed, so on these values one and the same call can deliver different
	// results from run to run (seen: -Inf here, -1.7e38 there, for the default engine as for the specialised
	// ones). The pure-Go kernels sum in a fixed order, and there the engines must agree bit for bit.
	if !strings.Contains(os.Getenv("VERIF_CONFIG"), "noasm") {
		return
	}
	for _, eng := range []string{"f64", "f32"} {
		for _, op := range []string{"Inner", "pkgInner", "MatVecMul", "MatMul", "Dot"} {
			eng, op := eng, op
			c20cell(t, "C20.prod", fmt.Sprintf("prod-exact/%s/eng=%s", op, eng), nCases(30, 800), func(rt *rapid.T) Case {
				n := rapid.SampledFrom([]int{1, 2, 3, 4, 5, 7, 8, 9, 15, 16, 17, 33}).Draw(rt, "n")
				m := rapid.IntRange(1, 4).Draw(rt, "m")
				k := rapid.IntRange(1, 3).Draw(rt, "k")
				c := &C20Prod{Op: op, Eng: eng}
				var as, bs []int
				switch op {
				case "Inner", "pkgInner":
					as, bs = []int{n}, []int{n}
				case "MatVecMul":
					as, bs = []int{m, n}, []int{n}
				case "MatMul":
					as, bs = []int{m, n}, []int{n, k}
				default:
					if rapid.Bool().Draw(rt, "dotvec") {
						as, bs = []int{n}, []int{n}
					} else {
						as, bs = []int{m, n}, []int{n, k}
					}
				}
				awk := []int64{1004, 1005, 1006, 1007, 1008, 1009, 1010, 1011, 1, -1, 3, 7, 1010, 1}
				mk := func(shape []int, label string) Opnd {
					lk := "contig"
					if len(shape) == 2 && rapid.IntRange(0, 3).Draw(rt, label+"T") == 0 {
						lk = "lazyT"
					}
					o := genOpnd(rt, shape, lk, 0, 1, 0, label)
					for i := range o.Codes {
						o.Codes[i] = rapid.SampledFrom(awk).Draw(rt, label+"v")
					}
					return o
				}
				c.A, c.B = mk(as, "a"), mk(bs, "b")
				return c
			})
		}
	}
}
