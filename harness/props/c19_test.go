package props

import (
	"fmt"
	"runtime"
	"strings"
	"testing"
	"unsafe"

	"gorgonia.org/tensor"
	"pgregory.net/rapid"
)

// C19 — no operation history corrupts another live tensor or the caller's slices.
//
// A case is a whole history: a list of self-contained steps whose integer
// parameters are mapped onto whatever population exists when the step runs, so
// every step is applicable in every state and the history shrinks as one value.
// The model is a two-level one: buffers of values and tensors that index into a
// buffer (views share the buffer of their source).

type C19Step struct {
	Op    string `json:"op"`
	I     int    `json:"i"`
	J     int    `json:"j,omitempty"`
	K     int    `json:"k,omitempty"`
	Ints  []int  `json:"ints,omitempty"`
	Mode  string `json:"mode,omitempty"`
	Code  int64  `json:"code,omitempty"`
	Float bool   `json:"float,omitempty"`
}

type C19Case struct {
	Steps []C19Step `json:"steps"`
}

func init() { register("C19.history", func() Case { return &C19Case{} }) }

func (c *C19Case) NTKey() string {
	ret, cons, owned := false, false, false
	for _, s := range c.Steps {
		switch s.Op {
		case "ReturnTensor", "UT", "Transpose", "RollAxis":
			ret = true
		case "New", "Slice", "Clone", "Arith", "Sum":
			if ret {
				cons = true
			}
		}
		switch s.Op {
		case "Slice", "T", "Sum", "At", "SetAt", "Repeat", "RepeatReuse", "SafeT", "TensorMul", "Reshape":
			owned = true
		}
	}
	if !(ret && cons && owned) {
		return ""
	}
	return fmt.Sprintf("%v", c.Steps)
}

type mBuf struct{ E []interface{} }

type mTensor struct {
	T     *tensor.Dense
	DT    DT
	Buf   *mBuf
	Idx   []int
	Shape []int
	// state before a pending lazy transpose (nil: none pending)
	preIdx   []int
	preShape []int
	// metadata snapshot
	strides []int
	name    string
}

func (m *mTensor) arr() Arr {
	a := Arr{DT: m.DT, Shape: m.Shape, E: make([]interface{}, len(m.Idx))}
	for k, j := range m.Idx {
		a.E[k] = m.Buf.E[j]
	}
	return a
}

func (m *mTensor) plain() bool {
	if m.preIdx != nil || len(m.Idx) != len(m.Buf.E) || m.T.IsView() {
		return false
	}
	for k, j := range m.Idx {
		if k != j {
			return false
		}
	}
	return true
}

// mMasked is a live masked tensor (kept apart: the other steps do not operate on masked tensors).
type mMasked struct {
	T    *tensor.Dense
	arr  Arr
	mask []bool
	name string
}

type c19World struct {
	masked []*mMasked
	pop    []*mTensor
	nextID int
	desc   []string
}

func (w *c19World) sole(m *mTensor) bool {
	for _, o := range w.pop {
		if o != m && o.Buf == m.Buf {
			return false
		}
	}
	return true
}

func (w *c19World) add(t *tensor.Dense, d DT, buf *mBuf, idx, shape []int) *mTensor {
	m := &mTensor{T: t, DT: d, Buf: buf, Idx: idx, Shape: cloneInts(shape), name: fmt.Sprintf("t%d", w.nextID)}
	w.nextID++
	m.strides = cloneInts(t.Strides())
	w.pop = append(w.pop, m)
	return m
}

func (w *c19World) addFresh(t *tensor.Dense, d DT) *mTensor {
	a := arrOf(t)
	buf := &mBuf{E: a.E}
	return w.add(t, d, buf, iota(len(a.E)), []int(t.Shape()))
}

func ptrOf(s []int) uintptr {
	if cap(s) == 0 {
		return 0
	}
	s = s[:1]
	return uintptr(unsafe.Pointer(&s[0]))
}

// owned is a caller-owned slice handed to the library together with its snapshot.
type owned struct {
	name string
	s    []int
	snap []int
}

func own(name string, s []int) *owned { return &owned{name: name, s: s, snap: cloneInts(s)} }

const maxPop = 8

func (c *C19Case) Run() string {
	tensor.VerifTrackPools(true)
	defer tensor.VerifTrackPools(false)
	defer tensor.UsePool()
	w := &c19World{}
	hist := func() string { return fmt.Sprintf("history %v", w.desc) }
	for si, st := range c.Steps {
		var named []*mTensor // tensors this step names as its subject / destination
		var owneds []*owned
		pick := func(i int) *mTensor {
			if len(w.pop) == 0 {
				return nil
			}
			return w.pop[((i%len(w.pop))+len(w.pop))%len(w.pop)]
		}
		note := st.Op
		var stepErr string
		pan := try(func() {
			switch st.Op {
			case "New":
				if len(w.pop) >= maxPop {
					note = "New(skipped: population full)"
					return
				}
				d := dtInt32
				if st.Float {
					d = dtF64
				}
				shape := []int{1 + abs(st.I)%3}
				for _, x := range st.Ints {
					if len(shape) < 3 {
						shape = append(shape, 1+abs(x)%3)
					}
				}
				if prod(shape) < 2 {
					shape[0] = 2
				}
				arr := seqArr(d, shape, st.Code%50)
				t := tensor.New(tensor.WithShape(shape...), tensor.WithBacking(mkBacking(d, arr.E)))
				m := w.addFresh(t, d)
				note = fmt.Sprintf("%s=New(%s %v)", m.name, d.Name, shape)
			case "Slice":
				m := pick(st.I)
				if m == nil || len(w.pop) >= maxPop || len(m.Shape) == 0 {
					note = "Slice(skipped)"
					return
				}
				// ranges derived from the ints: start/len per axis, always valid, never length-one
				var specs []SpecJ
				sl := make([]tensor.Slice, len(m.Shape))
				flat := []int{}
				for ax, dim := range m.Shape {
					a, b := 0, dim
					if dim >= 2 && ax < len(st.Ints) {
						a = abs(st.Ints[ax]) % (dim - 1)
						b = a + 2 + abs(st.Ints[ax]/7)%(dim-a-1)
					}
					specs = append(specs, SpecJ{K: "rng", A: a, B: b, S: 1})
					if dim == 1 {
						sl[ax] = nil
					} else {
						sl[ax] = RS{a, b, 1}
					}
					flat = append(flat, a, b)
				}
				// the list handed in is a prefix of a longer array the caller owns (trailing whole axes may be left
				// out): nothing of that array, within or beyond the length passed, may change
				full := append(append([]tensor.Slice{}, sl...), hiddenTail, hiddenTail)
				n := len(sl)
				for st.K%2 == 0 && n > 1 && specs[n-1].A == 0 && specs[n-1].B == m.Shape[n-1] {
					n--
				}
				before := append([]tensor.Slice{}, full...)
				v, err := m.T.Slice(full[:n]...)
				for i := range full {
					if full[i] != before[i] {
						stepErr = fmt.Sprintf("Slice of %s (shape %v) with %d of the caller's %d slice entries overwrote entry %d (%v -> %v)", m.name, m.Shape, n, len(full), i, before[i], full[i])
						return
					}
				}
				if err != nil {
					stepErr = fmt.Sprintf("Slice%v of %s (shape %v) refused: %v", specs, m.name, m.Shape, err)
					return
				}
				// model
				nshape := make([]int, len(m.Shape))
				for ax := range m.Shape {
					nshape[ax] = specs[ax].B - specs[ax].A
				}
				nidx := make([]int, 0, prod(nshape))
				src := make([]int, len(nshape))
				for _, cc := range coordsOf(nshape) {
					for ax := range cc {
						src[ax] = specs[ax].A + cc[ax]
					}
					nidx = append(nidx, m.Idx[flatIdx(m.Shape, src)])
				}
				vd := v.(*tensor.Dense)
				if prod(nshape) == 1 { // the library returns a scalar for one-element views
					nshape = []int{}
				}
				nm := w.add(vd, m.DT, m.Buf, nidx, nshape)
				note = fmt.Sprintf("%s=%s.Slice%v", nm.name, m.name, specs)
			case "T", "RollAxis":
				m := pick(st.I)
				if m == nil || len(m.Shape) < 2 {
					note = st.Op + "(skipped)"
					return
				}
				if m.preIdx != nil {
					m.T.UT()
					m.Idx, m.Shape, m.preIdx, m.preShape = m.preIdx, m.preShape, nil, nil
				}
				named = append(named, m)
				perms := allPermsCached(len(m.Shape))
				p := cloneIntsNN(perms[1+abs(first(st.Ints))%(len(perms)-1)])
				var err error
				if st.Op == "RollAxis" {
					axis := abs(first(st.Ints)) % len(m.Shape)
					start := abs(st.J) % (len(m.Shape) + 1)
					p = rollPerm(len(m.Shape), axis, start)
					_, err = m.T.RollAxis(axis, start, false)
					note = fmt.Sprintf("%s.RollAxis(%d,%d,false)", m.name, axis, start)
				} else {
					o := own("axes", cloneIntsNN(p))
					owneds = append(owneds, o)
					err = m.T.T(o.s...)
					note = fmt.Sprintf("%s.T%v", m.name, p)
				}
				if err != nil {
					stepErr = note + " refused: " + err.Error()
					return
				}
				if p != nil && !isIdentity(p) && prod(m.Shape) > 1 {
					im := Arr{Shape: m.Shape, E: make([]interface{}, len(m.Idx))}
					for k, j := range m.Idx {
						im.E[k] = j
					}
					im = im.Permute(p)
					m.preIdx, m.preShape = m.Idx, m.Shape
					m.Idx = make([]int, len(im.E))
					for k := range im.E {
						m.Idx[k] = im.E[k].(int)
					}
					m.Shape = im.Shape
				}
			case "UT":
				m := pick(st.I)
				if m == nil {
					return
				}
				named = append(named, m)
				m.T.UT()
				if m.preIdx != nil {
					m.Idx, m.Shape, m.preIdx, m.preShape = m.preIdx, m.preShape, nil, nil
				}
				note = m.name + ".UT()"
			case "Transpose":
				m := pick(st.I)
				if m == nil || !w.sole(m) || m.T.IsView() || len(m.Idx) != len(m.Buf.E) {
					note = "Transpose(skipped)"
					return
				}
				named = append(named, m)
				if err := m.T.Transpose(); err != nil {
					stepErr = m.name + ".Transpose() failed: " + err.Error()
					return
				}
				a := m.arr()
				m.Buf.E = a.E
				m.Idx = iota(len(a.E))
				m.preIdx, m.preShape = nil, nil
				note = m.name + ".Transpose()"
			case "Reshape":
				m := pick(st.I)
				if m == nil || !m.plain() {
					note = "Reshape(skipped)"
					return
				}
				fs := factorisations(len(m.Idx), 3)
				dims := cloneIntsNN(fs[abs(first(st.Ints))%len(fs)])
				o := own("dims", dims)
				owneds = append(owneds, o)
				named = append(named, m)
				if err := m.T.Reshape(o.s...); err != nil {
					// tensors owning non-contiguous storage (clones of sliced views) are refused;
					// the invariant below checks that the refusal left the tensor alone
					note = fmt.Sprintf("%s.Reshape%v=refused", m.name, o.snap)
					named = nil
					return
				}
				m.Shape = cloneInts(o.snap)
				note = fmt.Sprintf("%s.Reshape%v", m.name, o.snap)
			case "Clone", "Materialize":
				m := pick(st.I)
				if m == nil || len(w.pop) >= maxPop {
					note = st.Op + "(skipped)"
					return
				}
				var r *tensor.Dense
				if st.Op == "Clone" {
					r = m.T.Clone().(*tensor.Dense)
				} else {
					r = m.T.Materialize().(*tensor.Dense)
					if r == m.T {
						note = m.name + ".Materialize()=self"
						return
					}
				}
				a := m.arr()
				nm := w.add(r, m.DT, &mBuf{E: a.E}, iota(len(a.E)), m.Shape)
				if st.Op == "Clone" {
					inheritPending(nm, m)
				}
				note = fmt.Sprintf("%s=%s.%s()", nm.name, m.name, st.Op)
			case "Arith":
				a := pick(st.I)
				if a == nil || prod(a.Shape) < 2 {
					note = "Arith(skipped)"
					return
				}
				op := []string{"Add", "Sub", "Mul"}[abs(st.K)%3]
				// a second operand of the same type and shape, else a scalar
				var b *mTensor
				for off := 0; off < len(w.pop); off++ {
					cand := pick(st.J + off)
					if cand.DT.Name == a.DT.Name && eqInts(cand.Shape, a.Shape) {
						b = cand
						break
					}
				}
				mode := st.Mode
				var dst *mTensor
				if mode == "reuse" || mode == "incr" {
					for off := 0; off < len(w.pop); off++ {
						cand := pick(st.K + off)
						if cand.DT.Name == a.DT.Name && eqInts(cand.Shape, a.Shape) && cand.preIdx == nil && a.preIdx == nil && (b == nil || b.preIdx == nil) {
							dst = cand
							break
						}
					}
					if dst == nil {
						mode = "safe"
					}
				}
				if mode == "safe" && len(w.pop) >= maxPop {
					mode = "unsafe"
				}
				// a destination that overlaps an operand without being that very tensor makes the
				// result depend on the order of evaluation: not a meaningful call
				overlap := func(x, y *mTensor) bool { return x != nil && y != nil && x != y && x.Buf == y.Buf }
				switch mode {
				case "unsafe":
					if overlap(a, b) {
						note = "Arith(skipped: overlapping operand and destination)"
						return
					}
				case "reuse", "incr":
					if overlap(dst, a) || overlap(dst, b) {
						note = "Arith(skipped: overlapping operand and destination)"
						return
					}
				}
				var opts []tensor.FuncOpt
				switch mode {
				case "unsafe":
					opts = append(opts, tensor.UseUnsafe())
					named = append(named, a)
				case "reuse":
					opts = append(opts, tensor.WithReuse(dst.T))
					named = append(named, dst)
				case "incr":
					opts = append(opts, tensor.WithIncr(dst.T))
					named = append(named, dst)
				}
				var bv interface{}
				sc := conv(a.DT, 1+st.Code%4)
				if b != nil {
					bv = b.T
				} else {
					bv = sc
				}
				aArr := a.arr()
				want := make([]interface{}, len(aArr.E))
				var bArr Arr
				if b != nil {
					bArr = b.arr()
				}
				for k := range want {
					y := sc
					if b != nil {
						y = bArr.E[k]
					}
					want[k], _ = binop(op, aArr.E[k], y)
				}
				res, err := pkgBinary[op](a.T, bv, opts...)
				note = fmt.Sprintf("%s(%s,%s,%s)", op, a.name, nameOf(b), mode)
				if err != nil {
					if dst != nil { // destinations with gaps or aliasing are refused: accepted, nothing may change
						note += "=refused"
						return
					}
					stepErr = note + " refused: " + err.Error()
					return
				}
				switch mode {
				case "safe":
					nm := w.addFresh(res.(*tensor.Dense), a.DT)
					if m := compareAt(nm.T, Arr{DT: a.DT, Shape: a.Shape, E: want}, eqVal); m != "" {
						stepErr = note + ": result: " + m
					}
					inheritPending(nm, a) // a safe result is a clone of the first operand: a pending transpose comes with it
					note = nm.name + "=" + note
				case "unsafe":
					for k, j := range a.Idx {
						a.Buf.E[j] = want[k]
					}
				case "reuse":
					// operands are read before anything is written, except through aliasing:
					// compute from the snapshot taken above
					for k, j := range dst.Idx {
						dst.Buf.E[j] = want[k]
					}
				case "incr":
					dArr := dst.arr()
					for k, j := range dst.Idx {
						dst.Buf.E[j], _ = binop("Add", dArr.E[k], want[k])
					}
				}
			case "SafeT":
				m := pick(st.I)
				if m == nil || len(m.Shape) < 2 || len(w.pop) >= maxPop {
					note = "SafeT(skipped)"
					return
				}
				perms := allPermsCached(len(m.Shape))
				p := cloneIntsNN(perms[abs(first(st.Ints))%len(perms)]) // index 0 is the identity, given explicitly
				o := own("axes", cloneIntsNN(p))
				owneds = append(owneds, o)
				r, err := m.T.SafeT(o.s...)
				note = fmt.Sprintf("%s.SafeT%v", m.name, p)
				if err != nil {
					stepErr = note + " refused: " + err.Error()
					return
				}
				a := m.arr()
				nm := w.add(r, m.DT, &mBuf{E: a.E}, iota(len(a.E)), m.Shape)
				if isIdentity(p) || prod(m.Shape) == 1 {
					inheritPending(nm, m) // a faithful copy: what is pending on the source is pending on it
				} else {
					// the copy presents the permuted array; its UT() gives back the source's logical array
					pa := a.Permute(p)
					im := Arr{Shape: m.Shape, E: make([]interface{}, len(a.E))}
					for k := range im.E {
						im.E[k] = k
					}
					im = im.Permute(p)
					nm.preIdx, nm.preShape = nm.Idx, cloneInts(m.Shape)
					nm.Idx = make([]int, len(im.E))
					for k := range im.E {
						nm.Idx[k] = im.E[k].(int)
					}
					nm.Shape = pa.Shape
				}
				nm.strides = cloneInts(r.Strides())
				note = nm.name + "=" + note
			case "RepeatReuse":
				m := pick(st.I)
				if m == nil || len(m.Shape) == 0 || len(w.pop) >= maxPop || m.preIdx != nil {
					note = "RepeatReuse(skipped)"
					return
				}
				axis := abs(st.J) % len(m.Shape)
				reps := make([]int, m.Shape[axis])
				for i := range reps {
					reps[i] = 1 + abs(first(st.Ints)+i)%2
				}
				if inF32(&C10Case{Op: "Repeat", Ops: []Opnd{{Shape: m.Shape}}, Axis: axis, Repeats: reps}) {
					note = "RepeatReuse(skipped: F32b)"
					return
				}
				want, _ := repeatModel(m.arr(), axis, reps)
				reuse := tensor.New(tensor.Of(m.DT.T), tensor.WithShape(want.Shape...))
				o := own("repeats", reps)
				owneds = append(owneds, o)
				res, err := tensor.RepeatReuse(m.T, reuse, axis, o.s...)
				note = fmt.Sprintf("RepeatReuse(%s,%d,%v)", m.name, axis, o.snap)
				if err != nil {
					note += "=refused"
					return
				}
				if mm := compareAt(res, want, eqVal); mm != "" {
					stepErr = note + ": " + mm
					return
				}
				nm := w.addFresh(res.(*tensor.Dense), m.DT)
				note = nm.name + "=" + note
			case "Sum":
				m := pick(st.I)
				if m == nil || len(m.Shape) == 0 || len(w.pop) >= maxPop {
					note = "Sum(skipped)"
					return
				}
				var axes []int
				for ax := range m.Shape {
					if ax < len(st.Ints) && st.Ints[ax]%2 != 0 {
						axes = append(axes, ax)
					}
				}
				if len(axes) == 0 {
					axes = []int{abs(first(st.Ints)) % len(m.Shape)}
				}
				if len(axes) > 1 && st.J%2 == 1 { // unsorted, to see whether the library sorts the caller's slice
					axes[0], axes[len(axes)-1] = axes[len(axes)-1], axes[0]
				}
				o := own("along", axes)
				owneds = append(owneds, o)
				res, err := m.T.Sum(o.s...)
				note = fmt.Sprintf("%s.Sum(%v)", m.name, o.snap)
				if err != nil {
					note += "=refused"
					return
				}
				want := m.arr().ReduceAxes(o.snap, foldFor("Sum"))
				if mm := compareAt(res, want, eqVal); mm != "" {
					stepErr = note + ": " + mm
					return
				}
				nm := w.addFresh(res, m.DT)
				note = nm.name + "=" + note
			case "At", "SetAt":
				m := pick(st.I)
				if m == nil || len(m.Idx) == 0 {
					return
				}
				k := abs(first(st.Ints)) % len(m.Idx)
				var coord []int
				if len(m.Shape) > 0 {
					coord = cloneIntsNN(coordsOf(m.Shape)[k])
				}
				o := own("coords", coord)
				owneds = append(owneds, o)
				if st.Op == "At" {
					v, err := m.T.At(o.s...)
					note = fmt.Sprintf("%s.At(%v)", m.name, o.snap)
					if err != nil || !eqVal(v, m.Buf.E[m.Idx[k]]) {
						stepErr = fmt.Sprintf("%s = %v, %v; expected %s", note, v, err, fmtVal(m.Buf.E[m.Idx[k]]))
					}
				} else {
					nv := conv(m.DT, 60+st.Code%30)
					named = append(named, m)
					note = fmt.Sprintf("%s.SetAt(%s,%v)", m.name, fmtVal(nv), o.snap)
					if err := m.T.SetAt(nv, o.s...); err != nil {
						stepErr = note + " failed: " + err.Error()
						return
					}
					m.Buf.E[m.Idx[k]] = nv
				}
			case "Repeat":
				m := pick(st.I)
				if m == nil || len(m.Shape) == 0 || len(w.pop) >= maxPop || m.preIdx != nil {
					note = "Repeat(skipped)"
					return
				}
				axis := abs(st.J) % len(m.Shape)
				reps := make([]int, m.Shape[axis])
				for i := range reps {
					reps[i] = 1 + abs(first(st.Ints)+i)%2
				}
				if inF32(&C10Case{Op: "Repeat", Ops: []Opnd{{Shape: m.Shape}}, Axis: axis, Repeats: reps}) {
					note = "Repeat(skipped: F32b)"
					return
				}
				o := own("repeats", reps)
				owneds = append(owneds, o)
				res, err := m.T.Repeat(axis, o.s...)
				note = fmt.Sprintf("%s.Repeat(%d,%v)", m.name, axis, o.snap)
				if err != nil {
					note += "=refused"
					return
				}
				want, _ := repeatModel(m.arr(), axis, o.snap)
				if mm := compareAt(res, want, eqVal); mm != "" {
					stepErr = note + ": " + mm
					return
				}
				nm := w.addFresh(res.(*tensor.Dense), m.DT)
				note = nm.name + "=" + note
			case "TensorMul":
				a, b := pick(st.I), pick(st.J)
				if a == nil || b == nil || a.DT.Name != "float64" || b.DT.Name != "float64" || len(a.Shape) == 0 || len(b.Shape) == 0 || len(w.pop) >= maxPop {
					note = "TensorMul(skipped)"
					return
				}
				// first pair of axes of equal length, no length-one axes (F43)
				for _, s := range [][]int{a.Shape, b.Shape} {
					for _, d := range s {
						if d == 1 {
							note = "TensorMul(skipped: F43)"
							return
						}
					}
				}
				aa, bb := -1, -1
				for i, da := range a.Shape {
					for j, db := range b.Shape {
						if da == db && aa == -1 {
							aa, bb = i, j
						}
					}
				}
				if aa == -1 {
					note = "TensorMul(skipped: no fitting axes)"
					return
				}
				oa, ob := own("axesA", []int{aa}), own("axesB", []int{bb})
				owneds = append(owneds, oa, ob)
				res, err := a.T.TensorMul(b.T, oa.s, ob.s)
				note = fmt.Sprintf("%s.TensorMul(%s,%v,%v)", a.name, b.name, oa.snap, ob.snap)
				if err != nil {
					note += "=refused"
					return
				}
				want := tensordot(a.arr(), b.arr(), oa.snap, ob.snap)
				if len(want.Shape) == 0 {
					want.Shape = []int{1}
				}
				if mm := compareAt(res, want, eqVal); mm != "" {
					stepErr = note + ": " + mm
					return
				}
				nm := w.addFresh(res, a.DT)
				note = nm.name + "=" + note
			case "ReturnTensor":
				m := pick(st.I)
				if m == nil || len(w.pop) <= 1 {
					return
				}
				// the program forgets the tensor it hands back
				for i, o := range w.pop {
					if o == m {
						w.pop = append(w.pop[:i], w.pop[i+1:]...)
						break
					}
				}
				tensor.ReturnTensor(m.T)
				note = "ReturnTensor(" + m.name + ")"
			case "Observe":
				// operations that only read their operand: whatever they return (not modelled here), the
				// operand and every other live tensor are as they were - checked after the step like always
				m := pick(st.I)
				if m == nil {
					note = "Observe(skipped)"
					return
				}
				kinds := []string{"Norm", "Norm", "Argmax", "Argmin", "Max", "String", "Trace", "Eq", "Inner", "Norm"}
				k := kinds[st.J%len(kinds)]
				note = fmt.Sprintf("Observe:%s(%s)", k, m.name)
				_ = try(func() {
					switch k {
					case "Norm":
						ords := []tensor.NormOrder{tensor.Norm(2), tensor.Norm(1), tensor.InfNorm(), tensor.NegInfNorm(), tensor.FrobeniusNorm(), tensor.NuclearNorm(), tensor.Norm(-2), tensor.UnorderedNorm()}
						ord := ords[st.K%len(ords)]
						var axes []int
						if len(m.Shape) >= 2 && len(st.Ints) >= 2 {
							a0, a1 := st.Ints[0]%len(m.Shape), st.Ints[1]%len(m.Shape)
							if a0 != a1 {
								axes = []int{a0, a1}
							}
						} else if len(m.Shape) >= 1 && len(st.Ints) == 1 {
							axes = []int{st.Ints[0] % len(m.Shape)}
						}
						o := own("axes", axes)
						owneds = append(owneds, o)
						_, _ = m.T.Norm(ord, o.s...)
					case "Argmax":
						if len(m.Shape) > 0 {
							_, _ = m.T.Argmax(st.K % len(m.Shape))
						}
					case "Argmin":
						_, _ = m.T.Argmin(tensor.AllAxes)
					case "Max":
						_, _ = m.T.Max()
					case "String":
						_ = fmt.Sprintf("%v %+v %#v", m.T, m.T, m.T.Shape())
					case "Trace":
						_, _ = m.T.Trace()
					case "Eq":
						_ = m.T.Eq(m.T.Clone())
					case "Inner":
						_, _ = m.T.Inner(m.T)
					}
				})
			case "MultIter":
				// two live tensors are iterated together (the same shape, or a vector in two forms): read-only
				a := pick(st.I)
				if a == nil || len(a.Shape) == 0 {
					return
				}
				var other *tensor.Dense
				if len(a.Shape) == 1 && st.K%2 == 0 {
					other = tensor.New(tensor.Of(a.DT.T), tensor.WithShape(a.Shape[0], 1))
					note = fmt.Sprintf("MultIterator(fresh(%d,1), %s)", a.Shape[0], a.name)
				} else {
					other = tensor.New(tensor.Of(a.DT.T), tensor.WithShape(a.Shape...))
					note = fmt.Sprintf("MultIterator(fresh%v, %s)", a.Shape, a.name)
				}
				named = append(named, a)
				it := tensor.MultIteratorFromDense(other, a.T)
				cnt := 0
				for _, err := it.Next(); err == nil; _, err = it.Next() {
					cnt++
				}
				if cnt != prod(a.Shape) {
					stepErr = fmt.Sprintf("%s visited %d positions, expected %d", note, cnt, prod(a.Shape))
				}
			case "DecodeInto":
				// a live tensor (possibly a view of another) is the receiver of a decode: it becomes the decoded
				// tensor, with storage of its own - whatever it shared its old storage with stays as it was
				recv, src := pick(st.I), pick(st.J)
				if recv == nil || src == nil || recv == src || recv.DT.Name != src.DT.Name || len(src.Shape) == 0 {
					return
				}
				format := []string{"pb", "gob", "fb"}[abs(st.K)%3]
				enc, err := c14Encode(format, src.T)
				note = fmt.Sprintf("%s.%sDecode(%s.%sEncode())", recv.name, format, src.name, format)
				if err != nil {
					note += "(encode refused)"
					return
				}
				if _, err := c14DecodeInto(recv.T, format, enc, recv.DT, ""); err != nil {
					stepErr = note + " failed: " + err.Error()
					return
				}
				named = append(named, recv)
				a := src.arr()
				recv.Buf, recv.Idx, recv.Shape = &mBuf{E: append([]interface{}{}, a.E...)}, iota(len(a.E)), cloneInts(a.Shape)
				recv.preIdx, recv.preShape = nil, nil
				recv.strides = cloneInts(recv.T.Strides())
			case "MaskedViewRepoint":
				// a view object that looked into a masked tensor is re-pointed at an unmasked one and then given a
				// mask of its own: the masked tensor it used to look into keeps its mask
				if len(w.masked) == 0 {
					return
				}
				mm := w.masked[abs(st.I)%len(w.masked)]
				target := pick(st.J)
				if target == nil || len(target.Shape) == 0 || !target.plain() || target.T.DataOrder().IsNotContiguous() {
					return // (a clone of a strided view owns the view's gaps: the region of finding F13c)
				}
				v, err := mm.T.Slice(RS{0, mm.arr.Shape[0], 1})
				if err != nil {
					return
				}
				vd := v.(*tensor.Dense)
				note = fmt.Sprintf("v=%s[:]; %s.SliceInto(v); v.MaskedEqual", mm.name, target.name)
				if _, err := target.T.SliceInto(vd); err != nil {
					stepErr = note + ": SliceInto refused: " + err.Error()
					return
				}
				named = append(named, target)
				if err := vd.MaskedEqual(target.Buf.E[target.Idx[0]]); err != nil {
					stepErr = note + ": MaskedEqual refused: " + err.Error()
					return
				}
				vd.ResetMask(false)
			case "NewMasked":
				if len(w.masked) >= 3 {
					return
				}
				d := dtInt32
				if st.Float {
					d = dtF64
				}
				shape := []int{2 + abs(st.I)%3, 1 + abs(st.J)%5}
				arr := seqArr(d, shape, st.Code%50)
				mask := make([]bool, len(arr.E))
				for k := range mask {
					mask[k] = (st.K>>uint(k%6))&1 == 1 || k == int(st.Code)%len(mask)
				}
				var t *tensor.Dense
				how := "WithBacking"
				switch st.Code % 4 {
				case 3:
					// two predicates in a row on a fresh tensor: its mask is hard, so the second adds to the first
					how = "MaskedEqual+MaskedGreater"
					t = tensor.New(tensor.WithShape(shape...), tensor.WithBacking(mkBacking(d, arr.E)))
					pivot := arr.E[len(arr.E)/2]
					if err := t.MaskedEqual(arr.E[0]); err != nil {
						stepErr = "MaskedEqual refused: " + err.Error()
						return
					}
					if err := t.MaskedGreater(pivot); err != nil {
						stepErr = "MaskedGreater refused: " + err.Error()
						return
					}
					for k := range mask {
						g, _ := cmpop("Gt", arr.E[k], pivot)
						mask[k] = eqVal(arr.E[k], arr.E[0]) || g
					}
				case 0:
					t = tensor.New(tensor.WithShape(shape...), tensor.WithBacking(mkBacking(d, arr.E), append([]bool{}, mask...)))
				case 1:
					// the mask is made by the library on an unmasked tensor
					how = "MaskFromSlice"
					t = tensor.New(tensor.WithShape(shape...), tensor.WithBacking(mkBacking(d, arr.E)))
					t.MaskFromSlice(append([]bool{}, mask...))
				default:
					// the mask is made by a masking predicate: exactly the elements equal to the first one
					how = "MaskedEqual"
					t = tensor.New(tensor.WithShape(shape...), tensor.WithBacking(mkBacking(d, arr.E)))
					if err := t.MaskedEqual(arr.E[0]); err != nil {
						stepErr = "MaskedEqual refused: " + err.Error()
						return
					}
					for k := range mask {
						mask[k] = eqVal(arr.E[k], arr.E[0])
					}
				}
				mm := &mMasked{T: t, arr: arr, mask: mask, name: fmt.Sprintf("m%d", w.nextID)}
				w.nextID++
				w.masked = append(w.masked, mm)
				note = fmt.Sprintf("%s=NewMasked(%s %v mask %v via %s)", mm.name, d.Name, shape, mask, how)
			case "MaskedViewReturn":
				// a view of a masked tensor is taken, looked at and handed back to the pool
				if len(w.masked) == 0 {
					return
				}
				mm := w.masked[abs(st.I)%len(w.masked)]
				lo := abs(st.J) % mm.arr.Shape[0]
				v, err := mm.T.Slice(RS{lo, mm.arr.Shape[0], 1})
				note = fmt.Sprintf("ReturnTensor(%s[%d:])", mm.name, lo)
				if err != nil {
					stepErr = note + " refused: " + err.Error()
					return
				}
				vd := v.(*tensor.Dense)
				if vd.IsMasked() {
					inner := mm.arr.Shape[1]
					for k, cc := range coordsOf([]int(vd.Shape())) {
						got, err := vd.MaskAt(cc...)
						want := mm.mask[lo*inner+k]
						if len(vd.Shape()) == 1 && mm.arr.Shape[0]-lo == 1 {
							want = mm.mask[lo*inner+k]
						}
						if err != nil || got != want {
							stepErr = fmt.Sprintf("%s: the view's mask at %v is %v (%v), the source's is %v", note, cc, got, err, want)
							return
						}
					}
				}
				tensor.ReturnTensor(vd)
			case "ReturnMasked":
				if len(w.masked) == 0 {
					return
				}
				i := abs(st.I) % len(w.masked)
				mm := w.masked[i]
				w.masked = append(w.masked[:i], w.masked[i+1:]...)
				note = "ReturnTensor(" + mm.name + ")"
				if st.J%2 == 0 {
					mm.T.SoftenMask() // whatever state the tensor is handed back in, the next user starts afresh
					note = "SoftenMask+" + note
				}
				tensor.ReturnTensor(mm.T)
			case "UsePool":
				tensor.UsePool()
			case "DontUsePool":
				tensor.DontUsePool()
			case "GC":
				runtime.GC()
			default:
				panic("HARNESS: unknown C19 op " + st.Op)
			}
		})
		w.desc = append(w.desc, note)
		if note == st.Op || strings.Contains(note, "skipped") {
			rec.Class("step-skipped:" + st.Op)
		} else {
			rec.Class("step:" + st.Op)
		}
		if pan != "" {
			return fmt.Sprintf("step %d %s panicked: %s; %s", si, note, pan, hist())
		}
		if stepErr != "" {
			return fmt.Sprintf("step %d: %s; %s", si, stepErr, hist())
		}
		if msg := w.invariant(named, owneds, si, note); msg != "" {
			return msg + "; " + hist()
		}
	}
	return ""
}

func nameOf(m *mTensor) string {
	if m == nil {
		return "scalar"
	}
	return m.name
}

func first(s []int) int {
	if len(s) == 0 {
		return 0
	}
	return s[0]
}

func abs(x int) int {
	if x < 0 {
		if x == -x {
			return 0
		}
		return -x
	}
	return x
}

// invariant is evaluated after every step.
func (w *c19World) invariant(named []*mTensor, owneds []*owned, si int, note string) string {
	isNamed := func(m *mTensor) bool {
		for _, n := range named {
			if n == m {
				return true
			}
		}
		return false
	}
	check := func(when string) string {
		for _, m := range w.pop {
			if msg := compareAt(m.T, m.arr(), eqVal); msg != "" {
				return fmt.Sprintf("after step %d (%s)%s live tensor %s (%s) no longer equals its model: %s", si, note, when, m.name, m.DT.Name, msg)
			}
			if !isNamed(m) && !eqInts(m.T.Strides(), m.strides) {
				return fmt.Sprintf("after step %d (%s)%s the strides of %s, which the step does not name, changed from %v to %v", si, note, when, m.name, m.strides, m.T.Strides())
			}
		}
		return ""
	}
	if msg := check(""); msg != "" {
		return msg
	}
	// masks: a live masked tensor keeps its mask, and no other live tensor acquires one
	for _, m := range w.pop {
		if m.T.IsMasked() {
			return fmt.Sprintf("after step %d (%s) live tensor %s, which was never given a mask, is masked (mask %v)", si, note, m.name, m.T.Mask())
		}
	}
	for _, mm := range w.masked {
		if !mm.T.IsMasked() {
			return fmt.Sprintf("after step %d (%s) masked tensor %s lost its mask", si, note, mm.name)
		}
		if msg := compareAt(mm.T, mm.arr, eqVal); msg != "" {
			return fmt.Sprintf("after step %d (%s) masked tensor %s no longer equals its model: %s", si, note, mm.name, msg)
		}
		for k, cc := range coordsOf(mm.arr.Shape) {
			if got, err := mm.T.MaskAt(cc...); err != nil || got != mm.mask[k] {
				return fmt.Sprintf("after step %d (%s) the mask of %s at %v is %v (%v), expected %v (whole mask %v, expected %v)", si, note, mm.name, cc, got, err, mm.mask[k], mm.T.Mask(), mm.mask)
			}
		}
	}
	for _, m := range w.pop {
		m.strides = cloneInts(m.T.Strides())
	}
	// caller-owned slices: unchanged ...
	for _, o := range owneds {
		if !eqInts(o.s, o.snap) {
			return fmt.Sprintf("step %d (%s) changed the caller's %s slice from %v to %v", si, note, o.name, o.snap, o.s)
		}
	}
	// ... and not retained: scribble over them and look again
	for _, o := range owneds {
		for i := range o.s {
			o.s[i] = -77
		}
	}
	if len(owneds) > 0 {
		if msg := check(" and after the caller overwrote the slices it had passed in,"); msg != "" {
			return msg
		}
	}
	// the pool must not hand out anything twice, nor anything a live tensor still uses
	if ev := tensor.VerifPoolEvents(); len(ev) > 0 {
		// realise it: two borrows of that size return the same array
		for _, e := range ev {
			if e.Kind == "double-return" && e.Size <= 8 {
				a, b := tensor.BorrowInts(e.Size), tensor.BorrowInts(e.Size)
				same := ptrOf(a) == ptrOf(b) && ptrOf(a) != 0
				if !same {
					// keep what we took out of circulation away from the pool (it is suspect)
				}
				if same {
					return fmt.Sprintf("after step %d (%s) a slice was returned to the ints pool twice: two BorrowInts(%d) calls now hand out the same array", si, note, e.Size)
				}
			}
		}
	}
	var borrowed [][]int
	seen := map[uintptr]int{}
	for round := 0; round < 2; round++ {
		for size := 1; size <= 4; size++ {
			s := tensor.BorrowInts(size)
			p := ptrOf(s)
			if prev, ok := seen[p]; ok && p != 0 {
				return fmt.Sprintf("after step %d (%s) BorrowInts handed out the same array twice (sizes %d and %d)", si, note, prev, size)
			}
			seen[p] = size
			borrowed = append(borrowed, s)
		}
	}
	for _, m := range w.pop {
		for _, meta := range [][]int{[]int(m.T.Shape()), m.T.Strides()} {
			if p := ptrOf(meta); p != 0 {
				if _, ok := seen[p]; ok {
					return fmt.Sprintf("after step %d (%s) BorrowInts handed out an array that live tensor %s still uses for its shape/strides %v", si, note, m.name, meta)
				}
			}
		}
	}
	for i := len(borrowed) - 1; i >= 0; i-- {
		tensor.ReturnInts(borrowed[i])
	}
	tensor.VerifPoolEvents() // our own returns are clean; drop bookkeeping noise
	return ""
}

// ---------------------------------------------------------------- generator

var c19Ops = []string{"New", "New", "Slice", "Slice", "T", "T", "UT", "UT", "Transpose", "RollAxis", "Reshape", "Clone", "Materialize", "SafeT", "SafeT", "Arith", "Arith", "Arith", "Sum", "Sum", "At", "SetAt", "Repeat", "RepeatReuse", "TensorMul", "ReturnTensor", "ReturnTensor", "UsePool", "DontUsePool", "GC", "NewMasked", "MaskedViewReturn", "ReturnMasked", "MultIter", "DecodeInto", "MaskedViewRepoint", "Observe", "Observe"}

func genC19(rt *rapid.T, minLen, maxLen int) *C19Case {
	n := rapid.IntRange(minLen, maxLen).Draw(rt, "len")
	c := &C19Case{}
	// start with a couple of tensors
	c.Steps = append(c.Steps, C19Step{Op: "New", I: 2, Ints: []int{2, 1}, Float: true}, C19Step{Op: "New", I: 1, Ints: []int{2}, Code: 7})
	for i := 0; i < n; i++ {
		st := C19Step{Op: rapid.SampledFrom(c19Ops).Draw(rt, "op")}
		st.I = rapid.IntRange(0, 40).Draw(rt, "i")
		st.J = rapid.IntRange(0, 40).Draw(rt, "j")
		st.K = rapid.IntRange(0, 40).Draw(rt, "k")
		ni := rapid.IntRange(0, 3).Draw(rt, "ni")
		for j := 0; j < ni; j++ {
			st.Ints = append(st.Ints, rapid.IntRange(0, 60).Draw(rt, "int"))
		}
		st.Mode = rapid.SampledFrom([]string{"safe", "unsafe", "reuse", "incr"}).Draw(rt, "mode")
		st.Code = int64(rapid.IntRange(0, 40).Draw(rt, "code"))
		st.Float = rapid.Bool().Draw(rt, "float")
		c.Steps = append(c.Steps, st)
	}
	return c
}

func TestC19(t *testing.T) {
	cell(t, "C19", "C19.history", "short", nCases(1500, 40000), func(rt *rapid.T) Case { return genC19(rt, 5, 30) })
	cell(t, "C19", "C19.history", "long", nCases(150, 4000), func(rt *rapid.T) Case { return genC19(rt, 60, 200) })
	// histories biased towards recycling: transposes, rolls, returns followed by constructions
	cell(t, "C19", "C19.history", "recycling", nCases(1500, 40000), func(rt *rapid.T) Case {
		c := genC19(rt, 5, 40)
		for i := range c.Steps {
			if i >= 2 && rapid.IntRange(0, 2).Draw(rt, "bias") == 0 {
				c.Steps[i].Op = rapid.SampledFrom([]string{"RollAxis", "UT", "T", "ReturnTensor", "New", "Slice", "Transpose", "Clone", "SafeT", "Reshape", "RepeatReuse", "NewMasked", "MaskedViewReturn", "ReturnMasked", "MultIter", "DecodeInto", "MaskedViewRepoint"}).Draw(rt, "bop")
			}
		}
		return c
	})
}

// inheritPending: nm is a fresh copy of m's logical content (identity Idx over its own
// buffer); if a lazy transpose is pending on m it is pending on the copy as well.
func inheritPending(nm, m *mTensor) {
	if m.preIdx == nil {
		return
	}
	pos := map[int]int{}
	for k, j := range m.Idx {
		pos[j] = k
	}
	nm.preIdx = make([]int, len(m.preIdx))
	for k, j := range m.preIdx {
		nm.preIdx[k] = pos[j]
	}
	nm.preShape = cloneInts(m.preShape)
}
