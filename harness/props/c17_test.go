package props

import (
	"fmt"
	"testing"

	"gorgonia.org/tensor"
	"pgregory.net/rapid"
)

// C17 — every element-type specialisation computes the same function.
//
// One case holds ONE set of logical inputs whose exact results are representable
// in every participating element type; the operation is run for every element
// type. (a) every type's result equals the generic model at that type (the
// per-type run IS the C06/C08/C11/C12/C15 oracle); (b) the results of all types
// that computed agree after conversion to a common wide type; (c) the set of
// types that compute (vs. refuse) is the operation's type class (the per-type run
// demands an error exactly for the unsupported types).

type C17Case struct {
	Fam    string  `json:"fam"` // arith | cmp | unary | reduce | apply | maskpred | native
	Op     string  `json:"op"`
	Form   string  `json:"form,omitempty"`
	Mode   string  `json:"mode,omitempty"`
	Same   bool    `json:"same,omitempty"`
	Iter   bool    `json:"iter"` // non-contiguous operands: the iterator kernels
	Shape  []int   `json:"shape"`
	A      []int64 `json:"a"`
	B      []int64 `json:"b,omitempty"`
	Scalar int64   `json:"scalar,omitempty"`
	Dst    []int64 `json:"dst,omitempty"`
	Axes   []int   `json:"axes,omitempty"`
	Lo     int64   `json:"lo,omitempty"`
	Hi     int64   `json:"hi,omitempty"`
	Step   int     `json:"step,omitempty"`
	// MaskDst: the reuse/incr destination carries a mask (bit k set where Dst[k] is odd). The model says
	// nothing about masked positions; all element types must still treat them alike.
	MaskDst bool `json:"maskDst,omitempty"`
	// MaskA: operand a carries a mask (bit k set where Dst[k] is odd): the masked iterator kernels of every type
	MaskA bool `json:"maskA,omitempty"`
}

func init() { register("C17.xtype", func() Case { return &C17Case{} }) }

func (c *C17Case) NTKey() string {
	return fmt.Sprintf("%s|%s|%s|%s|%v|%v|%v|%v|%v|%v|%v", c.Fam, c.Op, c.Form, c.Mode, c.Same, c.Iter, c.Shape, c.A, c.Axes, c.MaskDst, c.MaskA)
}

func (c *C17Case) layout() Layout {
	if !c.Iter {
		return Layout{Root: "rm"}
	}
	st := LStep{Op: "slice", Lo: make([]int, len(c.Shape)), Hi: make([]int, len(c.Shape)), Step: ones(len(c.Shape))}
	ax := len(c.Shape) - 1
	st.Step[ax] = 2
	if c.Shape[ax] == 1 {
		for i, d := range c.Shape {
			if d > 1 {
				st.Step[ax], st.Step[i] = 1, 2
				break
			}
		}
	}
	return Layout{Root: "rm", Steps: []LStep{st}}
}

// wide converts a result element to a common wide representation.
func wide(v interface{}) interface{} {
	switch x := v.(type) {
	case bool:
		return x
	case string:
		return x
	case complex64, complex128:
		return toC128(v)
	case undefinedVal:
		return x
	case nil:
		return nil
	}
	return complex(toF64(v), 0)
}

func (c *C17Case) Run() string {
	type outcome struct {
		dt  string
		res Arr
	}
	var outs []outcome
	lay := c.layout()
	for _, d := range allDTs {
		if d.Name == "unsafe.Pointer" || d.Name == "uintptr" {
			continue
		}
		resetLib()
		var msg string
		var res *Arr
		switch c.Fam {
		case "arith", "cmp", "unary":
			if c.Fam == "cmp" && !d.IsNum() && (c.Same || c.Mode != "safe") {
				continue
			}
			if d.Name == "string" || d.Name == "bool" {
				if c.Fam != "cmp" {
					// refusal cells for non-numeric types are part of C06/C12; here only the ordered/equality comparisons
					continue
				}
			}
			e := &EWCase{Prop: "C17", Fam: c.Fam, Op: c.Op, DT: d.Name, Form: c.Form, Via: "pkg", Mode: c.Mode, SameType: c.Same, Lo: c.Lo, Hi: c.Hi}
			if c.Fam == "unary" {
				e.Form = "T"
			}
			e.A = Opnd{Shape: c.Shape, Codes: c.A, L: lay}
			if c.MaskA {
				e.A.Mask = make([]bool, len(c.A))
				for i := range e.A.Mask {
					e.A.Mask[i] = c.Dst[i%len(c.Dst)]%2 == 1
				}
			}
			if e.Form == "TT" {
				e.B = &Opnd{Shape: c.Shape, Codes: c.B, L: lay}
			} else {
				e.Scalar = c.Scalar
			}
			if c.Mode == "reuse" || c.Mode == "incr" {
				dd := d
				if c.Fam == "cmp" && !c.Same {
					dd = dtBool
				}
				_ = dd
				e.Dst = &Opnd{Shape: c.Shape, Codes: c.Dst, L: Layout{Root: "rm"}}
				if c.MaskDst {
					e.Dst.Mask = make([]bool, len(c.Dst))
					for i, v := range c.Dst {
						e.Dst.Mask[i] = v%2 == 1
					}
				}
			}
			msg = e.Run()
			if msg == "" && ewLast.Computed {
				r := ewLast.Result
				res = &r
			}
		case "reduce":
			if !d.IsNum() || (d.IsComplex() && c.Op != "Sum") {
				continue
			}
			r := &C08Case{Op: c.Op, DT: d.Name, A: Opnd{Shape: c.Shape, Codes: c.A, L: lay}, Axes: c.Axes, Via: "method"}
			c08Last = Arr{}
			msg = r.Run()
			if msg == "" && c08Last.E != nil {
				rr := c08Last
				res = &rr
			}
		case "apply":
			a := &ApplyCase{DT: d.Name, A: Opnd{Shape: c.Shape, Codes: c.A, L: lay}, Mode: c.Mode, Sig: c.Form}
			if c.Mode == "reuse" {
				a.Dst = &Opnd{Shape: c.Shape, Codes: c.Dst, L: Layout{Root: "rm"}}
			}
			msg = a.Run()
		case "maskpred":
			if !d.IsOrd() {
				continue
			}
			p := &C15Pred{Pred: c.Op, DT: d.Name, Shape: c.Shape, Codes: c.A, V1: c.Lo, V2: c.Hi, Soft: c.Same, Prior: c.Mode, Root: "rm"}
			if c.Mode == "random" {
				p.PMask = make([]bool, len(c.A))
				for i := range p.PMask {
					p.PMask[i] = c.Dst[i]%2 == 1
				}
			}
			msg = p.Run()
		case "native":
			n := &C04Copy{DT: d.Name, A: Opnd{Shape: c.Shape, Codes: c.A, L: Layout{Root: "rm"}}, Op: "Native"}
			msg = n.Run()
		case "getset":
			g := &C01Case{DT: d.Name, Shape: c.Shape, L: lay, Base: c.Scalar}
			msg = g.Run()
		case "write":
			wl := lay
			if !c.Iter {
				wl = Layout{Root: "rm", Steps: []LStep{{Op: "slice", Lo: append([]int{1}, make([]int, len(c.Shape)-1)...), Hi: make([]int, len(c.Shape)), Step: ones(len(c.Shape))}}}
			}
			wc := &C04Write{DT: d.Name, A: Opnd{Shape: c.Shape, Codes: c.A, L: wl}, Write: c.Op, Code: 1 + c.Scalar%50}
			msg = wc.Run()
		case "mat64":
			if !d.IsInt() && !d.IsFloat() {
				continue
			}
			mc := &C04Copy{DT: d.Name, A: Opnd{Shape: c.Shape, Codes: c.A, L: lay}, Op: "ToMat64"}
			msg = mc.Run()
		case "eq":
			// Dense.Eq of two plain tensors: Go's == on every pair of elements (so NaN differs from itself and
			// -0 equals +0), the same definition for every element type
			aE, bE := decodeAll(d, c.A), decodeAll(d, c.B)
			ta := tensor.New(tensor.WithShape(c.Shape...), tensor.WithBacking(mkBacking(d, aE)))
			tb := tensor.New(tensor.WithShape(c.Shape...), tensor.WithBacking(mkBacking(d, bE)))
			want := true
			for k := range aE {
				if !goEqual(aE[k], bE[k]) {
					want = false
				}
			}
			var got, rev bool
			if p := try(func() { got, rev = ta.Eq(tb), tb.Eq(ta) }); p != "" {
				msg = "Eq panicked: " + p
				break
			}
			if got != want || rev != want {
				msg = fmt.Sprintf("Eq of %s and %s is %v (the other way round %v), expected %v", fmtVals(aE), fmtVals(bE), got, rev, want)
				break
			}
			if !ta.Eq(ta) {
				msg = "a tensor is not Eq to itself"
			}
		case "argmasked":
			// arg-reductions of masked tensors have a kernel per element type as well; what they return is not
			// modelled here (masked elements do not take part) - the types must agree with each other
			if !d.IsInt() && !d.IsFloat() {
				continue
			}
			mask := make([]bool, len(c.A))
			for i := range mask {
				mask[i] = c.Dst[i]%2 == 1
			}
			b, err := Build(Arr{DT: d, Shape: c.Shape, E: decodeAll(d, c.A)}, Layout{Root: "rm"}, mask)
			if err != nil {
				continue
			}
			ax := c.Axes[0]
			if ax < 0 {
				ax = tensor.AllAxes
			}
			var r *tensor.Dense
			var rerr error
			if p := try(func() {
				if c.Op == "Argmax" {
					r, rerr = b.T.Argmax(ax)
				} else {
					r, rerr = b.T.Argmin(ax)
				}
			}); p != "" {
				msg = fmt.Sprintf("%s(%d) of a masked tensor %v mask %v panicked: %s", c.Op, c.Axes[0], c.A, mask, p)
				break
			}
			if rerr != nil {
				continue
			}
			rr := arrOf(r)
			res = &rr
		case "reducefn":
			if !d.IsNum() {
				continue
			}
			r := &C08Case{Op: c.Op, DT: d.Name, A: Opnd{Shape: c.Shape, Codes: c.A, L: Layout{Root: "rm"}}, Axes: c.Axes, Via: "method"}
			if c.Op == "ReduceSub" && d.IsUnsigned() {
				continue // differences of small non-negative numbers are not representable
			}
			c08Last = Arr{}
			msg = r.Run()
			if msg == "" && c08Last.E != nil {
				rr := c08Last
				res = &rr
			}
		}
		if msg == inconclusive {
			continue
		}
		if msg != "" {
			return fmt.Sprintf("element type %s: %s", d.Name, msg)
		}
		rec.Class("ran:" + c.Fam + "/" + d.Name)
		// the cross-type comparison only covers types in which inputs and exact results are representable
		representable := !(d.Name == "bool") && !(c.Op == "Neg" && d.IsUnsigned())
		if res != nil && representable {
			outs = append(outs, outcome{d.Name, *res})
		}
	}
	// (b) pairwise agreement after conversion
	for i := 1; i < len(outs); i++ {
		a, b := outs[0], outs[i]
		if c.Fam == "cmp" && !c.Same && c.Mode == "safe" {
			// bool results: directly comparable
		}
		if len(a.res.E) != len(b.res.E) || !eqInts(a.res.Shape, b.res.Shape) {
			return fmt.Sprintf("%s %s: result shapes differ between %s (%v) and %s (%v)", c.Fam, c.Op, a.dt, a.res.Shape, b.dt, b.res.Shape)
		}
		for k := range a.res.E {
			x, y := wide(a.res.E[k]), wide(b.res.E[k])
			same := eqVal(x, y)
			if !same && (unopInexact(c.Op, dtF32) || opInexact(c.Op, dtF32) || (c.Fam == "unary" && c.Op == "Inv")) {
				// functions delegated to maths routines: agreement up to float32 accuracy
				if xc, ok := x.(complex128); ok {
					if yc, ok := y.(complex128); ok {
						same = cclose(xc, yc, 1e-5) || (!cmplxIsFinite(xc) && !cmplxIsFinite(yc))
					}
				}
			}
			if !same {
				return fmt.Sprintf("%s %s (form %s mode %s iter %v) on the same inputs %v / %v: element %d is %s for %s but %s for %s", c.Fam, c.Op, c.Form, c.Mode, c.Iter, c.A, c.B, k, fmtVal(a.res.E[k]), a.dt, fmtVal(b.res.E[k]), b.dt)
			}
		}
	}
	rec.ClassN("types-agreeing", len(outs))
	return ""
}

// genC17 draws inputs whose exact results are representable in every numeric type.
func genC17(rt *rapid.T, fam, op, form, mode string, same, iter bool) *C17Case {
	shape := genShapeMin2(rt, 1, 3, 3, "s")
	n := prod(shape)
	c := &C17Case{Fam: fam, Op: op, Form: form, Mode: mode, Same: same, Iter: iter, Shape: shape}
	draw := func(lo, hi int64, label string) []int64 { return genCodes(rt, n, lo, hi, 0, label) }
	c.Dst = draw(0, 5, "dst")
	switch fam {
	case "arith":
		switch op {
		case "Add", "Mul", "MinBetween", "MaxBetween":
			c.A, c.B, c.Scalar = draw(0, 5, "a"), draw(0, 5, "b"), rapid.Int64Range(0, 5).Draw(rt, "s")
		case "Sub":
			c.B = draw(0, 4, "b")
			c.A = make([]int64, n)
			for i := range c.A {
				c.A[i] = c.B[i] + rapid.Int64Range(0, 4).Draw(rt, "k")
			}
			c.Scalar = 0
			if form == "ST" {
				c.Scalar = 9 // 9 - a >= 0
			}
		case "Div":
			c.B = draw(1, 3, "b")
			c.A = make([]int64, n)
			for i := range c.A {
				c.A[i] = c.B[i] * rapid.Int64Range(0, 4).Draw(rt, "q")
			}
			c.Scalar = 1
			if form == "ST" { // s / a: a divides 12
				c.Scalar = 12
				for i := range c.A {
					c.A[i] = rapid.SampledFrom([]int64{1, 2, 3, 4, 6}).Draw(rt, "div")
				}
			}
		case "Mod":
			c.A, c.B = draw(0, 9, "a"), draw(1, 4, "b")
			c.Scalar = 3
			if form == "ST" {
				c.Scalar = 11
				c.A = draw(1, 4, "a1")
			}
		case "Pow":
			c.A, c.B, c.Scalar = draw(0, 3, "a"), draw(0, 2, "b"), 2
		}
	case "cmp":
		c.A, c.B, c.Scalar = draw(0, 3, "a"), draw(0, 3, "b"), rapid.Int64Range(0, 3).Draw(rt, "s")
	case "unary":
		switch op {
		case "Sqrt":
			c.A = make([]int64, n)
			for i := range c.A {
				r := rapid.Int64Range(0, 5).Draw(rt, "r")
				c.A[i] = r * r
			}
		case "Inv":
			c.A = draw(1, 1, "a")
		case "Cube":
			c.A = draw(0, 4, "a")
		case "Clamp":
			c.A, c.Lo, c.Hi = draw(0, 9, "a"), 2, 6
		default:
			c.A = draw(0, 6, "a")
		}
	case "reduce":
		c.A = draw(0, 3, "a")
		switch op {
		case "Argmax", "Argmin":
			if rapid.Bool().Draw(rt, "all") {
				c.Axes = []int{-1}
			} else {
				c.Axes = []int{rapid.IntRange(0, len(shape)-1).Draw(rt, "axis")}
			}
		default:
			if rapid.Bool().Draw(rt, "all") {
				c.Axes = nil
			} else {
				c.Axes = genAxesSubset(rt, len(shape))
			}
		}
	case "apply":
		c.A = draw(0, 6, "a")
	case "maskpred":
		c.A, c.Lo, c.Hi = draw(0, 5, "a"), rapid.Int64Range(0, 3).Draw(rt, "lo"), rapid.Int64Range(3, 5).Draw(rt, "hi")
	case "write":
		c.A, c.Scalar = draw(0, 30, "a"), rapid.Int64Range(0, 40).Draw(rt, "code")
		if shape[0] == 1 && len(shape) == 1 {
			c.Shape = []int{2}
			c.A = []int64{1, 2}
		}
	case "mat64":
		c.Shape = []int{rapid.IntRange(1, 3).Draw(rt, "r"), rapid.IntRange(1, 3).Draw(rt, "cc")}
		c.A = genCodes(rt, prod(c.Shape), 0, 60, 0, "a")
	case "reducefn":
		c.A = draw(0, 3, "a")
		c.Axes = []int{rapid.IntRange(0, len(shape)-1).Draw(rt, "axis")}
	case "native", "getset":
		if len(shape) > 3 {
			shape = shape[:3]
			c.Shape = shape
		}
		c.A = genCodes(rt, prod(shape), 0, 60, 0, "a")
	}
	return c
}

func TestC17(t *testing.T) {
	n := nCases(4, 60)
	c17FloatCells(t)
	c17ConsCells(t)
	cell(t, "C17", "C17.xtype", "eq", nCases(40, 1200), func(rt *rapid.T) Case {
		shape := genShapeMin2(rt, 1, 3, 4, "s")
		n := prod(shape)
		c := &C17Case{Fam: "eq", Op: "Eq", Shape: shape, A: genCodes(rt, n, -2, 4, 30, "a")}
		c.B = append([]int64{}, c.A...)
		switch rapid.IntRange(0, 3).Draw(rt, "differ") {
		case 0: // one element differs
			k := rapid.IntRange(0, n-1).Draw(rt, "k")
			c.B[k] = genCodes(rt, 1, -2, 4, 30, "bk")[0]
		case 1: // zero against zero (the float types have two of them: code 1003 is -0)
			k := rapid.IntRange(0, n-1).Draw(rt, "k")
			c.A[k], c.B[k] = 0, 1003
		}
		return c
	})
	for _, op := range []string{"Argmax", "Argmin"} {
		op := op
		cell(t, "C17", "C17.xtype", "argmasked/"+op, nCases(40, 1200), func(rt *rapid.T) Case {
			shape := genShapeMin2(rt, 1, 3, 4, "s")
			c := &C17Case{Fam: "argmasked", Op: op, Shape: shape, A: genCodes(rt, prod(shape), 0, 6, 0, "a"), Dst: genCodes(rt, prod(shape), 0, 1, 0, "m")}
			if rapid.Bool().Draw(rt, "all") {
				c.Axes = []int{-1}
			} else {
				c.Axes = []int{rapid.IntRange(0, len(shape)-1).Draw(rt, "axis")}
			}
			// every lane keeps at least one element that takes part
			lanes := map[string][]int{}
			for k, cc := range coordsOf(shape) {
				key := ""
				if c.Axes[0] >= 0 {
					cp := cloneInts(cc)
					cp[c.Axes[0]] = 0
					key = fmt.Sprint(cp)
				}
				lanes[key] = append(lanes[key], k)
			}
			for _, ks := range lanes {
				any := false
				for _, k := range ks {
					any = any || c.Dst[k]%2 == 0
				}
				if !any {
					c.Dst[ks[0]] = 0
				}
			}
			return c
		})
	}
	for _, op := range arithOps {
		for _, form := range []string{"TT", "TS", "ST"} {
			for _, mode := range []string{"safe", "unsafe", "reuse", "incr"} {
				for _, iter := range []bool{false, true} {
					if (op == "MinBetween" || op == "MaxBetween") && (mode == "unsafe" || mode == "incr" || (form == "ST" && iter)) {
						continue // F25
					}
					op, form, mode, iter := op, form, mode, iter
					cell(t, "C17", "C17.xtype", fmt.Sprintf("arith/%s/%s/%s/iter=%v", op, form, mode, iter), n, func(rt *rapid.T) Case {
						return genC17(rt, "arith", op, form, mode, false, iter)
					})
					if !iter && mode != "unsafe" {
						// a masked operand: the mask-aware iterator kernels of every type skip the same positions
						cell(t, "C17", "C17.xtype", fmt.Sprintf("arith/%s/%s/%s/masked-a", op, form, mode), nCases(2, 30), func(rt *rapid.T) Case {
							c := genC17(rt, "arith", op, form, mode, false, false)
							c.MaskA = true
							return c
						})
					}
					if mode == "incr" || mode == "reuse" {
						// a masked destination: positions masked there are skipped by the iterator kernels of every type alike
						cell(t, "C17", "C17.xtype", fmt.Sprintf("arith/%s/%s/%s/iter=%v/masked-dst", op, form, mode, iter), nCases(2, 30), func(rt *rapid.T) Case {
							c := genC17(rt, "arith", op, form, mode, false, iter)
							c.MaskDst = true
							return c
						})
					}
					if !iter {
						// operands with exactly one element: every type's kernels have a branch of their own for them
						cell(t, "C17", "C17.xtype", fmt.Sprintf("arith/%s/%s/%s/one-element", op, form, mode), nCases(2, 30), func(rt *rapid.T) Case {
							c := genC17(rt, "arith", op, form, mode, false, false)
							c.Shape = rapid.SampledFrom([][]int{{1}, {1, 1}, {1, 1, 1}}).Draw(rt, "shape1")
							c.A, c.Dst = c.A[:1], c.Dst[:1]
							if len(c.B) > 0 {
								c.B = c.B[:1]
							}
							return c
						})
					}
				}
			}
		}
	}
	for _, op := range cmpOps {
		for _, form := range []string{"TT", "TS", "ST"} {
			for _, mode := range []string{"safe", "safe-same", "unsafe", "reuse-same"} {
				for _, iter := range []bool{false, true} {
					op, form, mode, iter := op, form, mode, iter
					m, same := mode, false
					switch mode {
					case "safe-same":
						m, same = "safe", true
					case "reuse-same":
						m, same = "reuse", true
					case "unsafe":
						same = true
					}
					if form == "ST" && same && iter {
						continue // F26
					}
					cell(t, "C17", "C17.xtype", fmt.Sprintf("cmp/%s/%s/%s/iter=%v", op, form, mode, iter), n, func(rt *rapid.T) Case {
						return genC17(rt, "cmp", op, form, m, same, iter)
					})
				}
			}
		}
	}
	for _, op := range unaryOps {
		for _, mode := range []string{"safe", "unsafe", "reuse", "incr"} {
			for _, iter := range []bool{false, true} {
				op, mode, iter := op, mode, iter
				cell(t, "C17", "C17.xtype", fmt.Sprintf("unary/%s/%s/iter=%v", op, mode, iter), n, func(rt *rapid.T) Case {
					return genC17(rt, "unary", op, "T", mode, false, iter)
				})
			}
		}
	}
	for _, op := range []string{"Sum", "Max", "Min", "Argmax", "Argmin"} {
		for _, iter := range []bool{false, true} {
			op, iter := op, iter
			cell(t, "C17", "C17.xtype", fmt.Sprintf("reduce/%s/iter=%v", op, iter), nCases(10, 150), func(rt *rapid.T) Case {
				return genC17(rt, "reduce", op, "", "", false, iter)
			})
		}
	}
	for _, mode := range []string{"safe", "unsafe", "reuse"} {
		for _, sig := range []string{"plain", "err"} {
			for _, iter := range []bool{false, true} {
				mode, sig, iter := mode, sig, iter
				cell(t, "C17", "C17.xtype", fmt.Sprintf("apply/%s/%s/iter=%v", mode, sig, iter), n, func(rt *rapid.T) Case {
					return genC17(rt, "apply", "Apply", sig, mode, false, iter)
				})
			}
		}
	}
	for _, pred := range c15Preds {
		for _, soft := range []bool{true, false} {
			for _, prior := range []string{"none", "random"} {
				pred, soft, prior := pred, soft, prior
				cell(t, "C17", "C17.xtype", fmt.Sprintf("maskpred/%s/soft=%v/%s", pred, soft, prior), n, func(rt *rapid.T) Case {
					return genC17(rt, "maskpred", pred, "", prior, soft, false)
				})
			}
		}
	}
	cell(t, "C17", "C17.xtype", "native", nCases(20, 300), func(rt *rapid.T) Case { return genC17(rt, "native", "Native", "", "", false, false) })
	for _, w := range []string{"Memset", "Zero", "SetAtSweep", "CopyInto"} {
		for _, iter := range []bool{false, true} {
			w, iter := w, iter
			if w == "CopyInto" {
				continue // needs a source operand per type: covered by C04
			}
			cell(t, "C17", "C17.xtype", fmt.Sprintf("write/%s/iter=%v", w, iter), nCases(6, 80), func(rt *rapid.T) Case {
				return genC17(rt, "write", w, "", "", false, iter)
			})
		}
	}
	for _, iter := range []bool{false, true} {
		iter := iter
		cell(t, "C17", "C17.xtype", fmt.Sprintf("mat64/iter=%v", iter), nCases(10, 100), func(rt *rapid.T) Case {
			return genC17(rt, "mat64", "ToMat64", "", "", false, iter)
		})
	}
	cell(t, "C17", "C17.xtype", "reducefn", nCases(20, 200), func(rt *rapid.T) Case { return genC17(rt, "reducefn", "Reduce", "", "", false, false) })
	cell(t, "C17", "C17.xtype", "reducefn-noncommutative", nCases(30, 300), func(rt *rapid.T) Case {
		c := genC17(rt, "reducefn", "ReduceSub", "", "", false, false)
		if len(c.Shape) < 3 { // the middle-axis kernel needs rank 3
			c.Shape = []int{2, 3, 2}
			c.A = genCodes(rt, 12, 0, 3, 0, "a3")
			c.Axes = []int{rapid.IntRange(0, 2).Draw(rt, "axis3")}
		}
		return c
	})
	for _, iter := range []bool{false, true} {
		iter := iter
		cell(t, "C17", "C17.xtype", fmt.Sprintf("getset/iter=%v", iter), nCases(10, 100), func(rt *rapid.T) Case {
			return genC17(rt, "getset", "AtSetAt", "", "", false, iter)
		})
	}
}

// goEqual is Go's == on two values of one element type.
func goEqual(a, b interface{}) bool {
	switch x := a.(type) {
	case float32:
		return x == b.(float32)
	case float64:
		return x == b.(float64)
	case complex64:
		return x == b.(complex64)
	case complex128:
		return x == b.(complex128)
	}
	return a == b
}
