package props

import (
	"fmt"
	"reflect"

	"gorgonia.org/tensor"
	"gorgonia.org/tensor/native"
)

// typedNative lists the generated, per-element-type native conversion functions.
var typedNative = map[string]interface{}{
	"Vector/bool":        native.VectorB,
	"Matrix/bool":        native.MatrixB,
	"Tensor3/bool":       native.Tensor3B,
	"Select/bool":        native.SelectB,
	"Vector/int":         native.VectorI,
	"Matrix/int":         native.MatrixI,
	"Tensor3/int":        native.Tensor3I,
	"Select/int":         native.SelectI,
	"Vector/int8":        native.VectorI8,
	"Matrix/int8":        native.MatrixI8,
	"Tensor3/int8":       native.Tensor3I8,
	"Select/int8":        native.SelectI8,
	"Vector/int16":       native.VectorI16,
	"Matrix/int16":       native.MatrixI16,
	"Tensor3/int16":      native.Tensor3I16,
	"Select/int16":       native.SelectI16,
	"Vector/int32":       native.VectorI32,
	"Matrix/int32":       native.MatrixI32,
	"Tensor3/int32":      native.Tensor3I32,
	"Select/int32":       native.SelectI32,
	"Vector/int64":       native.VectorI64,
	"Matrix/int64":       native.MatrixI64,
	"Tensor3/int64":      native.Tensor3I64,
	"Select/int64":       native.SelectI64,
	"Vector/uint":        native.VectorU,
	"Matrix/uint":        native.MatrixU,
	"Tensor3/uint":       native.Tensor3U,
	"Select/uint":        native.SelectU,
	"Vector/uint8":       native.VectorU8,
	"Matrix/uint8":       native.MatrixU8,
	"Tensor3/uint8":      native.Tensor3U8,
	"Select/uint8":       native.SelectU8,
	"Vector/uint16":      native.VectorU16,
	"Matrix/uint16":      native.MatrixU16,
	"Tensor3/uint16":     native.Tensor3U16,
	"Select/uint16":      native.SelectU16,
	"Vector/uint32":      native.VectorU32,
	"Matrix/uint32":      native.MatrixU32,
	"Tensor3/uint32":     native.Tensor3U32,
	"Select/uint32":      native.SelectU32,
	"Vector/uint64":      native.VectorU64,
	"Matrix/uint64":      native.MatrixU64,
	"Tensor3/uint64":     native.Tensor3U64,
	"Select/uint64":      native.SelectU64,
	"Vector/float32":     native.VectorF32,
	"Matrix/float32":     native.MatrixF32,
	"Tensor3/float32":    native.Tensor3F32,
	"Select/float32":     native.SelectF32,
	"Vector/float64":     native.VectorF64,
	"Matrix/float64":     native.MatrixF64,
	"Tensor3/float64":    native.Tensor3F64,
	"Select/float64":     native.SelectF64,
	"Vector/complex64":   native.VectorC64,
	"Matrix/complex64":   native.MatrixC64,
	"Tensor3/complex64":  native.Tensor3C64,
	"Select/complex64":   native.SelectC64,
	"Vector/complex128":  native.VectorC128,
	"Matrix/complex128":  native.MatrixC128,
	"Tensor3/complex128": native.Tensor3C128,
	"Select/complex128":  native.SelectC128,
	"Vector/string":      native.VectorStr,
	"Matrix/string":      native.MatrixStr,
	"Tensor3/string":     native.Tensor3Str,
	"Select/string":      native.SelectStr,
}

// callTypedNative calls native.<fn><suffix>(t[, axis]) and flattens the nested slices it returns.
func callTypedNative(fn string, d DT, t *tensor.Dense, axis int) (flat []interface{}, dims []int, err error) {
	f, ok := typedNative[fn+"/"+d.Name]
	if !ok {
		return nil, nil, fmt.Errorf("no typed native function %s for %s", fn, d.Name)
	}
	args := []reflect.Value{reflect.ValueOf(t)}
	if fn == "Select" {
		args = append(args, reflect.ValueOf(axis))
	}
	out := reflect.ValueOf(f).Call(args)
	if !out[1].IsNil() {
		return nil, nil, out[1].Interface().(error)
	}
	var walk func(v reflect.Value, depth int)
	walk = func(v reflect.Value, depth int) {
		if v.Kind() == reflect.Slice {
			if len(dims) <= depth {
				dims = append(dims, v.Len())
			}
			// a row handed out by the native conversions ends where the row ends: appending to it must not
			// reach the next row's elements
			if depth > 0 && v.Len() > 0 && v.Index(0).Kind() != reflect.Slice && v.Cap() != v.Len() && err == nil {
				err = fmt.Errorf("native.%s hands out a row of length %d with capacity %d: appending to it would overwrite the following elements", fn, v.Len(), v.Cap())
			}
			for i := 0; i < v.Len(); i++ {
				walk(v.Index(i), depth+1)
			}
			return
		}
		flat = append(flat, v.Interface())
	}
	walk(out[0], 0)
	return flat, dims, err
}
