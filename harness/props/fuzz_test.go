package props

import (
	"fmt"
	"testing"

	"pgregory.net/rapid"
)

// Coverage-guided stages of the thorough tier: the same properties driven by
// go's native fuzzer through rapid.MakeFuzz (the fuzzer's bytes become rapid's
// random stream). A failing input is minimised by the fuzzer and the case is
// written as a replay file like in the rapid-driven cells.

func fuzzProp(prop, kind, name string, draw func(*rapid.T) Case) func(*rapid.T) {
	return func(rt *rapid.T) {
		c := draw(rt)
		if c == nil {
			rt.Skip("no case")
		}
		msg := runGuard(c)
		if msg == "" || msg == inconclusive {
			return
		}
		p := writeReplay(prop, kind, "fuzz/"+name, msg, c)
		fmt.Printf("VERIF-FAIL property=%s replay=%s cell=%s msg=%s\n", prop, p, "fuzz/"+name, oneLine(msg))
		rt.Fatalf("%s", msg)
	}
}

func FuzzC02(f *testing.F) {
	f.Add([]byte{0, 0, 0, 0, 0, 0, 0, 0})
	f.Fuzz(rapid.MakeFuzz(fuzzProp("C02", "C02.slice", "slice", func(rt *rapid.T) Case {
		shape := genShape(rt, 1, 4, 5, "s")
		if prod(shape) > 200 {
			shape[0] = 1
		}
		d := rapid.SampledFrom(c02DTs).Draw(rt, "dt")
		lk := rapid.SampledFrom(c02Layouts).Draw(rt, "lk")
		return &C02Case{DT: d.Name, Shape: shape, L: genLayoutKind(rt, lk, len(shape), "l"), Prog: genC02Prog(rt, shape, rapid.IntRange(1, 3).Draw(rt, "depth"), -1)}
	})))
}

func FuzzC14(f *testing.F) {
	f.Add([]byte{1, 2, 3, 4, 5, 6, 7, 8})
	f.Fuzz(rapid.MakeFuzz(fuzzProp("C14", "C14.roundtrip", "roundtrip", func(rt *rapid.T) Case {
		format := rapid.SampledFrom([]string{"gob", "npy", "csv", "pb", "fb"}).Draw(rt, "format")
		d := rapid.SampledFrom(allDTs).Draw(rt, "dt")
		if !formatAccepts(format, d) {
			d = dtF64
		}
		return avoidC14Regions(genC14(rt, format, d, rapid.SampledFrom(c14Layouts).Draw(rt, "lk"), rapid.IntRange(0, 4).Draw(rt, "masked") == 0))
	})))
}

func FuzzC19(f *testing.F) {
	f.Add([]byte{9, 9, 9, 9, 9, 9, 9, 9})
	f.Fuzz(rapid.MakeFuzz(fuzzProp("C19", "C19.history", "history", func(rt *rapid.T) Case { return genC19(rt, 5, 60) })))
}
