package props

import (
	"testing"

	"pgregory.net/rapid"
)

// C16 — column-major tensors are the same arrays as their row-major counterparts.
// The cases are those of the other properties with at least one operand (or the
// reuse destination) column-major; the oracle is the underlying property's: the
// model has no notion of data order.

var cmKinds = []string{"cmraw", "cmconv", "cmraw+sliced", "cmraw+lazyT", "cmconv+sliced", "cmraw+tailsliced"}
var cmOrRm = []string{"cmraw", "cmconv", "cmraw+sliced", "cmraw+lazyT", "cmraw+tailsliced", "contig", "lazyT", "sliced"}
var cmPlain = []string{"cmraw", "cmconv"}

// c16Layouts draws layouts for n operands such that at least one is column-major.
func c16Layouts(rt *rapid.T, n int) []string {
	out := make([]string, n)
	forced := rapid.IntRange(0, n-1).Draw(rt, "cmwhich")
	for i := range out {
		if i == forced {
			out[i] = rapid.SampledFrom(cmKinds).Draw(rt, "cmk")
		} else {
			out[i] = rapid.SampledFrom(cmOrRm).Draw(rt, "mixk")
		}
	}
	return out
}

func relayout(rt *rapid.T, o *Opnd, kind, label string) {
	o.L = genLayoutKind(rt, kind, len(o.Shape), label)
}

// sameShapeDst: the model of a destination that the library has to reshape counts its elements in
// row-major order, which is not what reshaping a column-major tensor means: C16 keeps destinations in
// the result's shape.
func sameShapeDst(c *EWCase) {
	if c.Dst != nil && !eqInts(c.Dst.Shape, c.A.Shape) {
		c.Dst.Shape = cloneInts(c.A.Shape)
		c.Dst.L = Layout{Root: "rm"}
	}
}

func TestC16(t *testing.T) {
	// ---- elementwise arithmetic (C06) and option modes (C07)
	for _, op := range arithOps {
		for _, mode := range []string{"safe", "unsafe", "reuse", "incr"} {
			op, mode := op, mode
			cell(t, "C16", "EW", "arith/"+op+"/"+mode, nCases(30, 800), func(rt *rapid.T) Case {
				d := rapid.SampledFrom([]DT{dtInt8, dtInt32, dtUint16, dtF32, dtF64, dtC128}).Draw(rt, "dt")
				if !opSupports("arith", op, d) {
					d = dtF64
				}
				form := rapid.SampledFrom([]string{"TT", "TS", "ST"}).Draw(rt, "form")
				c := genArithCase(rt, "C16", op, d, form, rapid.SampledFrom([]string{"pkg", "method"}).Draw(rt, "via"), "safe", c06LayoutKinds)
				if op == "MinBetween" || op == "MaxBetween" {
					c.Via = "pkg"
				}
				c = withMode(rt, c, mode, d)
				sameShapeDst(c)
				n := 1
				if c.B != nil {
					n++
				}
				if c.Dst != nil {
					n++
				}
				ls := c16Layouts(rt, n)
				relayout(rt, &c.A, ls[0], "ra")
				i := 1
				if c.B != nil {
					relayout(rt, c.B, ls[i], "rb")
					i++
				}
				if c.Dst != nil {
					dk := ls[i]
					if dk == "cmraw+sliced" || dk == "cmconv+sliced" || dk == "cmraw+lazyT" || dk == "lazyT" || dk == "sliced" {
						dk = rapid.SampledFrom([]string{"cmraw", "contig"}).Draw(rt, "dk")
					}
					relayout(rt, c.Dst, dk, "rd")
				}
				avoidF39(c)
				// the specialised engines see column-major operands as well
				if (d.Name == "float64" || d.Name == "float32") && rapid.IntRange(0, 2).Draw(rt, "eng") == 0 {
					c.Engine = map[string]string{"float64": "f64", "float32": "f32"}[d.Name]
				}
				return avoidC16EW(c)
			})
		}
	}
	// ---- comparisons (C11)
	for _, op := range cmpOps {
		for _, mode := range []string{"safe", "safe-same", "unsafe", "reuse", "reuse-same"} {
			op, mode := op, mode
			cell(t, "C16", "EW", "cmp/"+op+"/"+mode, nCases(30, 800), func(rt *rapid.T) Case {
				d := rapid.SampledFrom([]DT{dtInt8, dtInt32, dtUint16, dtF32, dtF64}).Draw(rt, "dt")
				form := rapid.SampledFrom([]string{"TT", "TS", "ST"}).Draw(rt, "form")
				c := genCmpMode(rt, "C16", op, d, form, "pkg", mode)
				n := 1
				if c.B != nil {
					n++
				}
				ls := c16Layouts(rt, n)
				relayout(rt, &c.A, ls[0], "ra")
				if c.B != nil {
					relayout(rt, c.B, ls[1], "rb")
				}
				if c.Dst != nil {
					relayout(rt, c.Dst, rapid.SampledFrom([]string{"cmraw", "contig"}).Draw(rt, "dk"), "rd")
				}
				if inF26(c) {
					c.Form = "TS"
				}
				return avoidC16EW(c)
			})
		}
	}
	// ---- unary (C12)
	for _, op := range unaryOps {
		for _, mode := range []string{"safe", "unsafe", "reuse", "incr"} {
			op, mode := op, mode
			cell(t, "C16", "EW", "unary/"+op+"/"+mode, nCases(20, 500), func(rt *rapid.T) Case {
				d := rapid.SampledFrom([]DT{dtInt8, dtInt32, dtF32, dtF64}).Draw(rt, "dt")
				if !opSupports("unary", op, d) {
					d = dtF64
				}
				c := genUnaryCase(rt, "C16", op, d, mode, cmKinds)
				if c.Dst != nil {
					relayout(rt, c.Dst, rapid.SampledFrom([]string{"cmraw", "contig"}).Draw(rt, "dk"), "rd")
				}
				return avoidC16EW(c)
			})
		}
	}
	// ---- reductions (C08)
	for _, op := range []string{"Sum", "Max", "Min", "Argmax", "Argmin"} {
		op := op
		cell(t, "C16", "C08.reduce", "reduce/"+op, nCases(80, 2000), func(rt *rapid.T) Case {
			shape := genShapeMin2(rt, 1, 4, 3, "s")
			d := rapid.SampledFrom([]DT{dtInt32, dtF64, dtUint8, dtF32}).Draw(rt, "dt")
			c := &C08Case{Op: op, DT: d.Name, Via: rapid.SampledFrom([]string{"pkg", "method"}).Draw(rt, "via")}
			c.A = genOpnd(rt, shape, rapid.SampledFrom(cmKinds).Draw(rt, "lk"), -4, 8, 0, "a")
			switch op {
			case "Sum", "Max", "Min":
				if rapid.IntRange(0, 3).Draw(rt, "all") == 0 {
					c.Axes = nil
				} else {
					c.Axes = genAxesSubset(rt, len(shape))
				}
			default:
				if rapid.IntRange(0, 3).Draw(rt, "all") == 0 {
					c.Axes = []int{-1}
				} else {
					c.Axes = []int{rapid.IntRange(0, len(shape)-1).Draw(rt, "axis")}
				}
			}
			return c
		})
	}
	// the whole-array arg-reductions of column-major VIEWS (they are materialised first): pairwise distinct
	// values, so that the position of the extreme is the answer
	for _, op := range []string{"Argmax", "Argmin"} {
		op := op
		cell(t, "C16", "C08.reduce", "reduce/"+op+"/all-axes-of-views", nCases(60, 1500), func(rt *rapid.T) Case {
			shape := genShapeMin2(rt, 2, 3, 4, "s")
			d := rapid.SampledFrom([]DT{dtInt32, dtF64, dtUint8, dtF32}).Draw(rt, "dt")
			c := &C08Case{Op: op, DT: d.Name, Via: rapid.SampledFrom([]string{"pkg", "method"}).Draw(rt, "via"), Axes: []int{-1}}
			c.A = genOpnd(rt, shape, rapid.SampledFrom([]string{"cmraw+tailsliced", "cmraw+tailsliced", "cmraw+sliced", "cmconv+sliced"}).Draw(rt, "lk"), 0, 1, 0, "a")
			perm := rapid.Permutation(iota(prod(shape))).Draw(rt, "values")
			for i := range c.A.Codes {
				c.A.Codes[i] = int64(perm[i])
			}
			return c
		})
	}
	// ---- products (C09)
	// TensorMul and Dot with column-major operands lie entirely in the region of finding F28
	for _, op := range []string{"Inner", "MatVecMul", "MatMul", "Outer", "Trace"} {
		op := op
		cell(t, "C16", "C09.linalg", "linalg/"+op, nCases(80, 2000), func(rt *rapid.T) Case {
			d := rapid.SampledFrom(floatCplxDTs).Draw(rt, "dt")
			mode := rapid.SampledFrom([]string{"safe", "reuse", "incr"}).Draw(rt, "mode")
			if op == "Inner" || op == "Trace" || op == "TensorMul" {
				mode = "safe"
			}
			c := genC09(rt, op, d, mode, []string{"contig"})
			n := 1
			if c.B != nil {
				n++
			}
			ls := c16Layouts(rt, n)
			relayout(rt, &c.A, ls[0], "ra")
			if c.B != nil {
				relayout(rt, c.B, ls[1], "rb")
			}
			if inF28(c) {
				rec.Class("excluded:F28")
				switch c.Op {
				case "MatMul", "MatVecMul", "Inner", "Outer", "Trace":
					relayout(rt, &c.A, "cmraw", "ra2")
					if c.B != nil {
						relayout(rt, c.B, rapid.SampledFrom(cmPlain).Draw(rt, "plainb"), "rb2")
					}
				default:
					return nil
				}
			}
			if c.Dst != nil {
				// the destination's data order is independent of the operands'
				c.Dst.L = Layout{Root: rapid.SampledFrom([]string{"cmraw", "cmraw", "rm"}).Draw(rt, "dstorder")}
				if rapid.IntRange(0, 4).Draw(rt, "rmops") == 0 {
					// row-major operands into a column-major destination
					c.Dst.L = Layout{Root: "cmraw"}
					c.A.L = Layout{Root: "rm"}
					if c.B != nil {
						c.B.L = Layout{Root: "rm"}
					}
				}
			}
			if c.Op == "Outer" && (len(c.A.Shape) == 2 || len(c.B.Shape) == 2) {
				rec.Class("excluded:F51")
				c.A.Shape, c.B.Shape = []int{prod(c.A.Shape)}, []int{prod(c.B.Shape)}
			}
			return avoidC09Regions(c)
		})
	}
	// Dot/TensorMul of row-major operands into a column-major reuse tensor (column-major OPERANDS are finding F28)
	for _, op := range []string{"Dot", "MatMul", "MatVecMul"} {
		op := op
		cell(t, "C16", "C09.linalg", "linalg/"+op+"/reuse-cm", nCases(40, 1000), func(rt *rapid.T) Case {
			d := rapid.SampledFrom(floatDTs).Draw(rt, "dt")
			c := genC09(rt, op, d, "reuse", []string{"contig"})
			if c.Dst != nil {
				c.Dst.L = Layout{Root: "cmraw"}
				c.DstT = false
				if len(c.A.Shape) == 0 || (c.B != nil && len(c.B.Shape) == 0) || prod(c.A.Shape) == 1 || (c.B != nil && prod(c.B.Shape) == 1) {
					// Dot with a scalar operand is the elementwise Mul with a reuse tensor of the other order: finding F18
					rec.Class("excluded:F18")
					c.Dst.L = Layout{Root: "rm"}
				}
			}
			return avoidC09Regions(c)
		})
	}
	// ---- assembling (C10)
	// Stack and Repeat with column-major operands lie entirely in the region of finding F50
	for _, op := range []string{"Concat", "Hstack", "Vstack"} {
		op := op
		cell(t, "C16", "C10.assemble", "assemble/"+op, nCases(80, 2000), func(rt *rapid.T) Case {
			c := genC10(rt, op, rapid.SampledFrom([]DT{dtInt16, dtF64, dtInt8, dtStr}).Draw(rt, "dt"), false)
			if op == "Stack" || op == "Repeat" {
				rec.Class("excluded:F50")
				return nil
			}
			ls := c16Layouts(rt, len(c.Ops))
			for i := range c.Ops {
				relayout(rt, &c.Ops[i], ls[i], "ro")
			}
			return avoidC10Regions(c)
		})
	}
	// ---- copies and conversions (C04)
	for _, op := range []string{"Clone", "Materialize", "SafeT", "pkgT", "CopyFresh", "CopyFlatten", "ToMat64", "Native"} {
		op := op
		cell(t, "C16", "C04.copy", "copy/"+op, nCases(60, 1500), func(rt *rapid.T) Case {
			d := rapid.SampledFrom(c04DTs).Draw(rt, "dt")
			minR, maxR := 1, 4
			switch op {
			case "ToMat64":
				minR, maxR = 2, 2
				d = rapid.SampledFrom([]DT{dtF64, dtF32, dtInt16, dtUint32, dtInt32, dtUint8}).Draw(rt, "mdt")
			case "Native":
				maxR = 3
			}
			shape := genShapeMin2(rt, minR, maxR, 3, "s")
			c := &C04Copy{DT: d.Name, Op: op}
			sp := 0
			if op == "ToMat64" && d.Size() <= 4 && !d.IsFloat() {
				sp = 20 // the extremes of the narrower integer types are exact in float64
			}
			c.A = genOpnd(rt, shape, rapid.SampledFrom(cmKinds).Draw(rt, "lk"), 0, 40, sp, "a")
			if op == "SafeT" || op == "pkgT" {
				c.Perm = genPerm(rt, len(shape), "perm")
			}
			c.Unsafe = op == "ToMat64" && rapid.Bool().Draw(rt, "tomatunsafe")
			return c
		})
	}
	// ---- whole-tensor writes through views of column-major tensors (C04)
	for _, w := range []string{"Memset", "Zero", "SetAtSweep", "UnsafeNeg", "UnsafeAdd", "CopyInto", "CopyIntoFlat"} {
		w := w
		cell(t, "C16", "C04.write", "write/"+w, nCases(60, 1500), func(rt *rapid.T) Case {
			d := rapid.SampledFrom([]DT{dtInt8, dtInt16, dtF32, dtF64}).Draw(rt, "dt")
			shape := genShapeMin2(rt, 1, 4, 3, "s")
			c := &C04Write{DT: d.Name, Write: w, Code: rapid.Int64Range(1, 60).Draw(rt, "code")}
			c.A = genOpnd(rt, shape, rapid.SampledFrom([]string{"cmraw+sliced", "cmconv+sliced", "cmraw+lazyT", "cmraw"}).Draw(rt, "lk"), 0, 30, 0, "a")
			if w == "UnsafeAdd" || w == "CopyInto" {
				s := genOpnd(rt, shape, rapid.SampledFrom(cmOrRm).Draw(rt, "ls"), 31, 60, 0, "s")
				c.Src = &s
			}
			return c
		})
	}
	// ---- slicing and transposition (C02, C03) are already stratified over column-major sources
	// in their own checks; here: programs over column-major sources with more cases
	cell(t, "C16", "C02.slice", "slice", nCases(200, 6000), func(rt *rapid.T) Case {
		shape := genShape(rt, 1, 4, 5, "s")
		if prod(shape) > 200 {
			shape[0] = 1
		}
		d := rapid.SampledFrom(c02DTs).Draw(rt, "dt")
		return &C02Case{DT: d.Name, Shape: shape, L: genLayoutKind(rt, rapid.SampledFrom(cmKinds).Draw(rt, "lk"), len(shape), "l"), Prog: genC02Prog(rt, shape, rapid.IntRange(1, 3).Draw(rt, "depth"), -1)}
	})
	cell(t, "C16", "C03.transpose", "transpose", nCases(200, 6000), func(rt *rapid.T) Case {
		shape := genC03Shape(rt)
		d := rapid.SampledFrom(c03DTs).Draw(rt, "dt")
		return &C03Case{DT: d.Name, Shape: shape, L: genLayoutKind(rt, rapid.SampledFrom(cmPlain).Draw(rt, "lk"), len(shape), "l"), Prog: genC03Prog(rt, shape, rapid.IntRange(1, 4).Draw(rt, "len"), "F12")}
	})
	// ---- serialisation (C14)
	for _, format := range []string{"gob", "npy", "csv", "pb", "fb"} {
		format := format
		cell(t, "C16", "C14.roundtrip", "serialise/"+format, nCases(60, 1500), func(rt *rapid.T) Case {
			d := rapid.SampledFrom([]DT{dtInt16, dtF64, dtF32, dtInt64}).Draw(rt, "dt")
			return avoidC14Regions(genC14(rt, format, d, rapid.SampledFrom(cmPlain).Draw(rt, "lk"), false))
		})
	}
	// ---- iteration (C05)
	cell(t, "C16", "C05.flat", "iterate", nCases(200, 6000), func(rt *rapid.T) Case {
		shape := genC05Shape(rt)
		return &C05Case{Shape: shape, L: genLayoutKind(rt, rapid.SampledFrom(cmKinds).Draw(rt, "lk"), len(shape), "l"), Via: "iterator", Walk: rapid.SampledFrom([]string{"forward", "reverse", "reset", "switch"}).Draw(rt, "walk"), K: rapid.IntRange(0, prod(shape)).Draw(rt, "k")}
	})
}

func opndCM(o *Opnd) bool { return o != nil && o.L.IsCM() }

// inF34: comparisons and MinBetween/MaxBetween with a column-major operand (the result
// is allocated row-major and filled in storage order).
func inF34(c *EWCase) bool {
	if c.Fam != "cmp" && c.Op != "MinBetween" && c.Op != "MaxBetween" {
		return false
	}
	return opndCM(&c.A) || opndCM(c.B) || opndCM(c.Dst)
}

// inF18: a reuse tensor whose data order differs from a tensor operand's.
func inF18(c *EWCase) bool {
	if c.Mode != "reuse" || c.Dst == nil {
		return false
	}
	d := c.Dst.L.IsCM()
	if c.A.L.IsCM() != d {
		return true
	}
	return c.B != nil && c.B.L.IsCM() != d
}

func avoidC16EW(c *EWCase) *EWCase {
	if inF34(c) {
		rec.Class("excluded:F34")
		// fall back to an arithmetic case on the same operands
		if c.Fam == "cmp" {
			c.Fam, c.Op, c.SameType = "arith", "Add", false
			switch c.Mode {
			case "reuseA", "reuseB":
			case "reuse":
				if c.Dst != nil {
					c.Mode = "incr"
				}
			}
			if c.Dst != nil && c.Mode == "reuse" {
				c.Mode = "incr"
			}
		} else {
			c.Op = "Sub"
		}
		// value ranges of the comparison generators are fine for arithmetic too
	}
	if inF18(c) {
		rec.Class("excluded:F18")
		c.Mode = "incr"
	}
	if inF25(c) {
		rec.Class("excluded:F25")
		c.Op = "Sub"
	}
	if inF17(c) {
		c.Mode = "safe"
		c.Dst = nil
	}
	return c
}

// inF28: products with a column-major operand, except the plain column-major x
// column-major BLAS calls.
func inF28(c *C09Case) bool {
	cm := opndCM(&c.A) || opndCM(c.B)
	if !cm {
		return false
	}
	plain := func(o *Opnd) bool { return o == nil || (o.L.IsCM() && len(o.L.Steps) == 0) }
	switch c.Op {
	case "MatMul", "MatVecMul", "Inner", "Outer", "Trace":
		return !(plain(&c.A) && plain(c.B))
	}
	return true
}
