package props

import (
	"encoding/json"
	"fmt"
	"os"
	"strings"
	"testing"

	"gorgonia.org/tensor"
)

// resetLib puts the library's package-level pools into a known state, so that
// every case starts from the same global state and a saved case reproduces in
// a fresh process.
func resetLib() { tensor.VerifResetPools() }

// TestReplay re-runs saved cases (VERIF_REPLAY = comma separated paths),
// bypassing rapid entirely.
func TestReplay(t *testing.T) {
	v := os.Getenv("VERIF_REPLAY")
	if v == "" {
		t.Skip("no VERIF_REPLAY")
	}
	for _, p := range strings.Split(v, ",") {
		env, c, err := loadReplay(p)
		if err != nil {
			fmt.Printf("VERIF-REPLAY path=%s result=error msg=%v\n", p, err)
			continue
		}
		msg := runGuard(c)
		switch msg {
		case "":
			fmt.Printf("VERIF-REPLAY path=%s property=%s result=pass\n", p, env.Prop)
		case inconclusive:
			fmt.Printf("VERIF-REPLAY path=%s property=%s result=inconclusive\n", p, env.Prop)
		default:
			fmt.Printf("VERIF-REPLAY path=%s property=%s result=fail msg=%s\n", p, env.Prop, oneLine(msg))
		}
	}
}

// try runs f and converts a panic into an error string (used where the
// statement allows a loud refusal).
func try(f func()) (panicked string) {
	defer func() {
		if r := recover(); r != nil {
			if s, ok := r.(string); ok && strings.HasPrefix(s, "HARNESS:") {
				panic(r)
			}
			panicked = fmt.Sprintf("%v", r)
			if panicked == "" {
				panicked = "panic"
			}
		}
	}()
	f()
	return ""
}

func jsonUnmarshal(b []byte, v interface{}) error { return json.Unmarshal(b, v) }
