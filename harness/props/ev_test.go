package props

import (
	"encoding/json"
	"flag"
	"fmt"
	"hash/fnv"
	"os"
	"path/filepath"
	"sort"
	"strconv"
	"strings"
	"sync"
	"testing"

	"pgregory.net/rapid"
)

// ---------------------------------------------------------------- configuration (environment set by /verif/check)

type config struct {
	Tier      string // quick | thorough
	Seed      uint64
	Shard     int
	NShards   int
	EvOut     string // where to write this process's evidence fragment
	ReplayDir string // where failing cases are written
	Scale     float64
}

var cfg = loadCfg()

func loadCfg() config {
	c := config{Tier: "quick", Seed: 1, NShards: 1, Scale: 1}
	if v := os.Getenv("VERIF_TIER"); v != "" {
		c.Tier = v
	}
	if v := os.Getenv("VERIF_SEED"); v != "" {
		if n, err := strconv.ParseInt(v, 10, 64); err == nil {
			c.Seed = uint64(n)
		}
	}
	if c.Seed == 0 {
		c.Seed = 0x5eed
	}
	if v := os.Getenv("VERIF_SHARD"); v != "" {
		parts := strings.Split(v, "/")
		if len(parts) == 2 {
			c.Shard, _ = strconv.Atoi(parts[0])
			c.NShards, _ = strconv.Atoi(parts[1])
		}
	}
	if c.NShards < 1 {
		c.NShards = 1
	}
	c.EvOut = os.Getenv("VERIF_EV_OUT")
	c.ReplayDir = os.Getenv("VERIF_REPLAY_DIR")
	if c.ReplayDir == "" {
		c.ReplayDir = filepath.Join(os.TempDir(), "verif-replays")
	}
	if v := os.Getenv("VERIF_SCALE"); v != "" {
		if f, err := strconv.ParseFloat(v, 64); err == nil && f > 0 {
			c.Scale = f
		}
	}
	return c
}

func thorough() bool { return cfg.Tier == "thorough" }

// quickMult scales the per-cell case counts of the quick tier (they were calibrated when
// the checks were written; the machine has room for more).
const quickMult = 8

// thoroughMult scales the thorough tier likewise (a full thorough run of all twenty
// properties takes about an hour on 16 cores).
const thoroughMult = 16

// n picks a per-cell case count by tier.
func nCases(quick, thor int) int {
	n := quick * quickMult
	if thorough() {
		n = thor * thoroughMult
	}
	n = int(float64(n) * cfg.Scale)
	if n < 1 {
		n = 1
	}
	return n
}

// ---------------------------------------------------------------- evidence recorder

type recorder struct {
	mu        sync.Mutex
	Prop      string              `json:"property_id"`
	Evals     int                 `json:"evaluations"`
	NT        map[string]struct{} `json:"-"`
	NTList    []string            `json:"nontrivial_hashes"`
	Classes   map[string]int      `json:"classes"`
	Samples   []json.RawMessage   `json:"samples"`
	Cells     int                 `json:"cells"`
	Failures  []failure           `json:"failures"`
	Inconcl   int                 `json:"inconclusive"`
	sampleCnt int
}

type failure struct {
	Prop   string `json:"property"`
	Cell   string `json:"cell"`
	Replay string `json:"replay"`
	Msg    string `json:"msg"`
	Region string `json:"region,omitempty"`
}

var rec = &recorder{NT: map[string]struct{}{}, Classes: map[string]int{}}

func hashStr(s string) string {
	h := fnv.New64a()
	h.Write([]byte(s))
	return strconv.FormatUint(h.Sum64(), 16)
}

// Eval counts one executed case.
func (r *recorder) Eval() { r.mu.Lock(); r.Evals++; r.mu.Unlock() }

// NonTrivial records a case that is non-trivial by the property's rule; key is its canonical encoding.
func (r *recorder) NonTrivial(key string) {
	r.mu.Lock()
	r.NT[hashStr(key)] = struct{}{}
	r.mu.Unlock()
}

func (r *recorder) Class(name string) { r.mu.Lock(); r.Classes[name]++; r.mu.Unlock() }

func (r *recorder) ClassN(name string, n int) { r.mu.Lock(); r.Classes[name] += n; r.mu.Unlock() }

// Sample keeps a bounded, deterministic selection of cases (first few, then every 2^k-th).
func (r *recorder) Sample(v interface{}) {
	r.mu.Lock()
	defer r.mu.Unlock()
	r.sampleCnt++
	n := r.sampleCnt
	keep := n <= 3 || (n&(n-1)) == 0
	if !keep || len(r.Samples) >= 14 {
		return
	}
	b, err := json.Marshal(v)
	if err == nil {
		r.Samples = append(r.Samples, b)
	}
}

func (r *recorder) flush() {
	if cfg.EvOut == "" {
		return
	}
	r.mu.Lock()
	defer r.mu.Unlock()
	r.NTList = r.NTList[:0]
	for k := range r.NT {
		r.NTList = append(r.NTList, k)
	}
	sort.Strings(r.NTList)
	b, _ := json.Marshal(r)
	_ = os.WriteFile(cfg.EvOut, b, 0o644)
}

// ---------------------------------------------------------------- cases, cells, replay

// Case is a serialisable generated case. Run executes it against the library
// and the model; it returns "" when the property held, a message otherwise.
// Run must be a pure function of the case (no RNG, no clock, no map order).
type Case interface {
	Run() string
}

// Meta lets a case describe itself for evidence.
type Meta interface {
	// NTKey returns a canonical key when the case is non-trivial by the property's rule, "" otherwise.
	NTKey() string
}

type envelope struct {
	Prop string          `json:"property"`
	Kind string          `json:"kind"`
	Cell string          `json:"cell,omitempty"`
	Msg  string          `json:"msg,omitempty"`
	Case json.RawMessage `json:"case"`
}

var registry = map[string]func() Case{}

func register(kind string, mk func() Case) { registry[kind] = mk }

type harnessErr struct{ msg string }

// runGuard runs a case, turning a panic that escapes the case's own handling
// into a violation message (a library panic in a place where no refusal is allowed).
func runGuard(c Case) (msg string) {
	defer func() {
		if r := recover(); r != nil {
			if s, ok := r.(string); ok && strings.HasPrefix(s, "HARNESS:") {
				panic(r)
			}
			if he, ok := r.(harnessErr); ok {
				panic("HARNESS: " + he.msg)
			}
			msg = fmt.Sprintf("unexpected panic: %v", r)
		}
	}()
	resetLib()
	return c.Run()
}

var failCount int

const maxFailuresPerProcess = 40

// cell runs n generated cases of one stratification cell.
func cell(t *testing.T, prop, kind, cellName string, n int, draw func(*rapid.T) Case) {
	if n <= 0 {
		return
	}
	cellName = strings.ReplaceAll(cellName, " ", "_") // the driver parses "cell=<name> msg=" lines
	cellIdx := rec.Cells
	rec.Cells++
	if cellIdx%cfg.NShards != cfg.Shard {
		return
	}
	if failCount >= maxFailuresPerProcess {
		return
	}
	rec.Prop = prop
	t.Run(cellName, func(t *testing.T) {
		_ = flag.Set("rapid.checks", strconv.Itoa(n))
		// every cell gets its own seed derived from the run seed and the cell name
		h := fnv.New64a()
		h.Write([]byte(cellName))
		seed := cfg.Seed*1000003 + h.Sum64()%1000000007
		if seed == 0 {
			seed = 1
		}
		_ = flag.Set("rapid.seed", strconv.FormatUint(seed, 10))
		var lastFile, lastMsg string
		defer func() {
			// rapid ends a failing check with FailNow (Goexit): report from a deferred call
			if lastFile != "" {
				failCount++
				fmt.Printf("VERIF-FAIL property=%s replay=%s cell=%s msg=%s\n", prop, lastFile, cellName, oneLine(lastMsg))
				rec.mu.Lock()
				rec.Failures = append(rec.Failures, failure{Prop: prop, Cell: cellName, Replay: lastFile, Msg: oneLine(lastMsg)})
				rec.mu.Unlock()
			}
		}()
		rapid.Check(t, func(rt *rapid.T) {
			c := draw(rt)
			if c == nil {
				rt.Skip("no case")
			}
			rec.Eval()
			msg := runGuard(c)
			if msg == inconclusive {
				rec.mu.Lock()
				rec.Inconcl++
				rec.mu.Unlock()
				return
			}
			if msg == "" {
				if m, ok := c.(Meta); ok {
					if k := m.NTKey(); k != "" {
						rec.NonTrivial(kind + "|" + cellName + "|" + k)
					}
				}
				rec.Sample(map[string]interface{}{"kind": kind, "cell": cellName, "case": c})
				return
			}
			lastFile = writeReplay(prop, kind, cellName, msg, c)
			lastMsg = msg
			rt.Fatalf("%s", msg)
		})
	})
}

const inconclusive = "\x00inconclusive"

func oneLine(s string) string {
	s = strings.ReplaceAll(s, "\n", " | ")
	if len(s) > 600 {
		s = s[:600] + "..."
	}
	return s
}

func writeReplay(prop, kind, cellName, msg string, c Case) string {
	_ = os.MkdirAll(cfg.ReplayDir, 0o755)
	cb, err := json.Marshal(c)
	if err != nil {
		panic("HARNESS: cannot serialise case: " + err.Error())
	}
	env := envelope{Prop: prop, Kind: kind, Cell: cellName, Msg: oneLine(msg), Case: cb}
	b, _ := json.MarshalIndent(env, "", " ")
	name := fmt.Sprintf("%s-%s.json", prop, hashStr(kind+"|"+cellName))
	p := filepath.Join(cfg.ReplayDir, name)
	_ = os.WriteFile(p, b, 0o644)
	return p
}

// loadReplay decodes a replay file into a runnable case.
func loadReplay(path string) (envelope, Case, error) {
	var env envelope
	b, err := os.ReadFile(path)
	if err != nil {
		return env, nil, err
	}
	if err := json.Unmarshal(b, &env); err != nil {
		return env, nil, err
	}
	mk, ok := registry[env.Kind]
	if !ok {
		return env, nil, fmt.Errorf("unknown case kind %q", env.Kind)
	}
	c := mk()
	if err := json.Unmarshal(env.Case, c); err != nil {
		return env, nil, err
	}
	return env, c, nil
}

func TestMain(m *testing.M) {
	code := m.Run()
	rec.flush()
	os.Exit(code)
}
