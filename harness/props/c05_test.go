package props

import (
	"fmt"
	"testing"

	"gorgonia.org/tensor"
	"pgregory.net/rapid"
)

// C05 — iterators visit every logical element exactly once, in logical order.

type C05Case struct {
	Shape []int  `json:"shape"`
	L     Layout `json:"layout"`
	Via   string `json:"via"`  // flat | iterator | newiter
	Walk  string `json:"walk"` // forward | reverse | reset | switch | switchback
	K     int    `json:"k"`    // position of the reset / switch
	// Walk == "prog": a generated sequence of segments. Each entry is a number of elements to consume
	// (>= 0; clamped to what is left; -1 = to exhaustion, then Done and the failing Next are checked)
	// followed by what is done next: "reset", "reverse", "forward" or "" (nothing).
	Prog []C05Seg `json:"prog,omitempty"`
	// Stepper: "" Next | "valid" NextValid | "validity" NextValidity
	Stepper string `json:"stepper,omitempty"`
}

type C05Seg struct {
	N    int    `json:"n"`
	Then string `json:"then,omitempty"`
}

func init() { register("C05.flat", func() Case { return &C05Case{} }) }

func layoutNT(l Layout, shape []int) bool {
	if len(l.Steps) > 0 && l.Final != "mat" {
		return true
	}
	if l.IsCM() && nonUnit(shape) >= 2 {
		return true
	}
	ones, big := 0, 0
	for _, d := range shape {
		if d == 1 {
			ones++
		} else {
			big++
		}
	}
	return ones > 0 && big > 0
}

func (c *C05Case) NTKey() string {
	if !layoutNT(c.L, c.Shape) {
		return ""
	}
	return fmt.Sprintf("%v|%v|%s|%s|%d|%v|%s", c.Shape, c.L, c.Via, c.Walk, c.K, c.Prog, c.Stepper)
}

// expectOffsets computes, from the harness's own bookkeeping, the storage offset
// (relative to the tensor's own data window) of every logical element.
func expectOffsets(b *Built) []int {
	if b.Detached || len(b.Idx) == 0 {
		return nil
	}
	base := b.rawPos[b.Idx[0]]
	for _, j := range b.Idx {
		if b.rawPos[j] < base {
			base = b.rawPos[j]
		}
	}
	out := make([]int, len(b.Idx))
	for k, j := range b.Idx {
		out[k] = b.rawPos[j] - base
	}
	return out
}

type walker struct {
	// stepper: which method advances the walk: "" Next, "valid" NextValid, "validity" NextValidity (on an
	// unmasked tensor every position is valid and the three visit the same offsets)
	stepper string
	it      tensor.Iterator
	arr     Arr
	window  []interface{}
	offs    []int // may be nil
	coords  [][]int
	desc    string
}

// full performs a complete walk in the given direction and checks every step.
func (w *walker) full(reverse bool) string { return w.segment(reverse, 0, len(w.arr.E), true) }

// segment consumes the elements from..to-1 (counted in the current direction) and checks every step;
// with end it also checks what follows the last element.
func (w *walker) segment(reverse bool, from, to int, end bool) string {
	n := len(w.arr.E)
	seen := map[int]bool{}
	for k := from; k < to; k++ {
		lk := k
		if reverse {
			lk = n - 1 - k
		}
		if len(w.coords) > 0 && len(w.coords[0]) > 0 {
			cc := w.it.Coord()
			if !eqInts(cc, w.coords[lk]) {
				return fmt.Sprintf("%s: before step %d (reverse=%v) Coord() = %v, expected %v", w.desc, k, reverse, cc, w.coords[lk])
			}
		}
		if w.it.Done() {
			return fmt.Sprintf("%s: Done() before step %d of %d (reverse=%v)", w.desc, k, n, reverse)
		}
		var o int
		var err error
		if p := try(func() {
			switch w.stepper {
			case "valid":
				var skip int
				o, skip, err = w.it.NextValid()
				if err == nil && ((reverse && skip != -1) || (!reverse && skip != 1)) && n > 1 {
					err = fmt.Errorf("NextValid on an unmasked tensor reports skip %d (reverse=%v)", skip, reverse)
				}
			case "validity":
				var valid bool
				o, valid, err = w.it.NextValidity()
				if err == nil && !valid {
					err = fmt.Errorf("NextValidity on an unmasked tensor reports an invalid position")
				}
			default:
				o, err = w.it.Next()
			}
		}); p != "" {
			return fmt.Sprintf("%s: Next panicked at step %d: %s", w.desc, k, p)
		}
		if err != nil {
			return fmt.Sprintf("%s: Next failed at step %d of %d (reverse=%v): %v", w.desc, k, n, reverse, err)
		}
		if o < 0 || o >= len(w.window) {
			return fmt.Sprintf("%s: step %d (reverse=%v) yields offset %d outside the data window [0,%d)", w.desc, k, reverse, o, len(w.window))
		}
		if !bitEqVal(w.window[o], w.arr.E[lk]) {
			return fmt.Sprintf("%s: step %d (reverse=%v) yields offset %d holding %s, expected the element %s of coordinate %v", w.desc, k, reverse, o, fmtVal(w.window[o]), fmtVal(w.arr.E[lk]), w.coords[lk])
		}
		if w.offs != nil && o != w.offs[lk] {
			return fmt.Sprintf("%s: step %d (reverse=%v) yields offset %d, expected %d", w.desc, k, reverse, o, w.offs[lk])
		}
		if seen[o] {
			return fmt.Sprintf("%s: offset %d yielded twice", w.desc, o)
		}
		seen[o] = true
	}
	if !end {
		return ""
	}
	if !w.it.Done() {
		return fmt.Sprintf("%s: not Done() after %d steps (reverse=%v)", w.desc, n, reverse)
	}
	var err error
	if p := try(func() { _, err = w.it.Next() }); p != "" {
		return fmt.Sprintf("%s: Next after exhaustion panicked: %s", w.desc, p)
	}
	if err == nil {
		return fmt.Sprintf("%s: Next after exhaustion did not report it (reverse=%v)", w.desc, reverse)
	}
	return ""
}

func (w *walker) partial(k int) string {
	for i := 0; i < k; i++ {
		if _, err := w.it.Next(); err != nil {
			return fmt.Sprintf("%s: Next failed at step %d during partial walk: %v", w.desc, i, err)
		}
	}
	return ""
}

func (c *C05Case) Run() string {
	d := dtInt16
	arr := seqArr(d, c.Shape, 0)
	b, err := Build(arr, c.L, nil)
	if err != nil {
		return inconclusive
	}
	rec.Class("layout:" + c.L.Kind())
	t := b.T
	var it tensor.Iterator
	switch c.Via {
	case "flat":
		it = tensor.FlatIteratorFromDense(t)
	case "iterator":
		it = t.Iterator()
	case "newiter":
		it = tensor.NewIterator(t.Info())
	}
	w := &walker{stepper: c.Stepper, it: it, arr: arr, window: backingVals(t.Data()), offs: expectOffsets(b), coords: coordsOf(c.Shape),
		desc: fmt.Sprintf("%s iterator over shape %v layout %v (strides %v)", c.Via, c.Shape, c.L, t.Strides())}
	if len(c.Shape) == 0 {
		w.window = []interface{}{t.ScalarValue()}
		w.offs = nil
	}
	n := len(arr.E)
	k := c.K
	if k > n {
		k = n
	}
	var msg string
	pan := try(func() {
		switch c.Walk {
		case "forward":
			// an unmasked tensor has no invalid position: asking for one finds none and does not move the walk
			if i, _, err := it.NextInvalid(); err == nil {
				msg = fmt.Sprintf("%s: NextInvalid on an unmasked tensor found position %d", w.desc, i)
				return
			}
			msg = w.full(false)
		case "reverse":
			it.SetReverse()
			msg = w.full(true)
		case "reset":
			if msg = w.partial(k); msg == "" {
				it.Reset()
				msg = w.full(false)
			}
		case "revreset":
			it.SetReverse()
			if msg = w.partial(k); msg == "" {
				it.Reset()
				msg = w.full(true)
			}
		case "switch":
			if msg = w.partial(k); msg == "" {
				it.SetReverse()
				msg = w.full(true)
			}
		case "switchback":
			it.SetReverse()
			if msg = w.partial(k); msg == "" {
				it.SetForward()
				msg = w.full(false)
			}
		case "twice":
			if msg = w.full(false); msg == "" {
				it.Reset()
				msg = w.full(false)
			}
		case "chan", "slice":
			// the same walk delivered through a channel, or collected into a list of offsets and cut by a range
			fi, ok := it.(*tensor.FlatIterator)
			if !ok {
				fi = tensor.FlatIteratorFromDense(t)
			}
			reverse := c.K%2 == 1
			if reverse {
				fi.SetReverse()
			}
			expect := func(got []int, pick []int, what string) string {
				if len(got) != len(pick) {
					return fmt.Sprintf("%s: %s delivers %d offsets %v, expected %d", w.desc, what, len(got), got, len(pick))
				}
				for i, k := range pick {
					lk := k
					if reverse {
						lk = n - 1 - k
					}
					o := got[i]
					if o < 0 || o >= len(w.window) || !bitEqVal(w.window[o], arr.E[lk]) || (w.offs != nil && o != w.offs[lk]) {
						return fmt.Sprintf("%s: %s: entry %d is offset %d, which is not the element of logical position %d (reverse=%v)", w.desc, what, i, o, lk, reverse)
					}
				}
				return ""
			}
			all := make([]int, n)
			for i := range all {
				all[i] = i
			}
			if c.Walk == "chan" {
				var got []int
				for o := range fi.Chan() {
					got = append(got, o)
					if len(got) > n+2 {
						break
					}
				}
				msg = expect(got, all, "Chan()")
				return
			}
			got, err := fi.Slice(nil)
			if _, noop := err.(tensor.NoOpError); noop {
				err = nil // the exhaustion that ends the collection is passed on; by the library's convention it is not a failure
			}
			if err != nil {
				msg = fmt.Sprintf("%s: Slice(nil) failed: %v", w.desc, err)
				return
			}
			if msg = expect(got, all, "Slice(nil)"); msg != "" || n == 0 {
				return
			}
			fi.Reset()
			a := k % n
			bnd := a + 1 + (c.K/7)%(n-a)
			st := 1 + (c.K/3)%3
			var pick []int
			for i := a; i < bnd; i += st {
				pick = append(pick, i)
			}
			got, err = fi.Slice(RS{a, bnd, st})
			if err != nil {
				msg = fmt.Sprintf("%s: Slice([%d:%d:%d]) failed: %v", w.desc, a, bnd, st, err)
				return
			}
			msg = expect(got, pick, fmt.Sprintf("Slice([%d:%d:%d])", a, bnd, st))
		case "prog":
			reverse, pos := false, 0
			for si, sg := range c.Prog {
				to := pos + sg.N
				end := false
				if sg.N < 0 || to >= n {
					to, end = n, sg.N < 0
				}
				if msg = w.segment(reverse, pos, to, end); msg != "" {
					msg = fmt.Sprintf("segment %d of %v: %s", si, c.Prog, msg)
					return
				}
				pos = to
				switch sg.Then {
				case "reset":
					it.Reset()
					pos = 0
				case "reverse":
					it.SetReverse()
					reverse, pos = true, 0
				case "forward":
					it.SetForward()
					reverse, pos = false, 0
				case "start":
					// Start() rewinds and yields the first element of the current direction
					if n > 0 {
						var o int
						var serr error
						if p := try(func() {
							switch x := it.(type) {
							case *tensor.FlatIterator:
								o, serr = x.Start()
							default:
								it.Reset()
								o, serr = it.Next()
							}
						}); p != "" || serr != nil {
							msg = fmt.Sprintf("%s: segment %d of %v: Start() failed: %v %v", w.desc, si, c.Prog, p, serr)
							return
						}
						lk := 0
						if reverse {
							lk = n - 1
						}
						if o < 0 || o >= len(w.window) || !bitEqVal(w.window[o], w.arr.E[lk]) {
							msg = fmt.Sprintf("%s: segment %d of %v: Start() yields offset %d, not the first element of the walk (reverse=%v)", w.desc, si, c.Prog, o, reverse)
							return
						}
						pos = 1
					}
				}
			}
			msg = w.segment(reverse, pos, n, true)
		}
	})
	if pan != "" {
		return w.desc + " walk " + c.Walk + " panicked: " + pan
	}
	if msg != "" {
		return msg
	}
	if m := compareAt(t, arr, bitEqVal); m != "" {
		return w.desc + ": iterating changed the tensor: " + m
	}
	return ""
}

// ---------------------------------------------------------------- masked iteration

type C05Mask struct {
	Shape []int  `json:"shape"`
	Mask  []bool `json:"mask"`
	Root  string `json:"root"`
	Rev   bool   `json:"rev"`
	L     Layout `json:"layout,omitempty"` // a masked VIEW (mask given over the logical elements); zero: the plain root
}

func init() { register("C05.masked", func() Case { return &C05Mask{} }) }

func (c *C05Mask) NTKey() string {
	any, all := false, true
	for _, m := range c.Mask {
		any = any || m
		all = all && m
	}
	if !any || all {
		return ""
	}
	return fmt.Sprintf("%v|%v|%s|%v|%v", c.Shape, c.Mask, c.Root, c.Rev, c.L)
}

func (c *C05Mask) Run() string {
	arr := seqArr(dtInt16, c.Shape, 0)
	l := c.L
	if l.Root == "" {
		l = Layout{Root: c.Root}
	}
	b, err := Build(arr, l, c.Mask)
	if err != nil {
		return inconclusive
	}
	t := b.T
	if !t.IsMasked() {
		return inconclusive
	}
	rec.Class("masked-layout:" + l.Kind())
	n := len(arr.E)
	desc := fmt.Sprintf("masked iterator over shape %v (%v) mask %v reverse=%v", c.Shape, l, c.Mask, c.Rev)
	// logical position of a storage offset: the value stored there
	window := backingVals(t.Data())
	posOf := func(o int) int {
		if o < 0 || o >= len(window) {
			return -1
		}
		for k := range arr.E {
			if bitEqVal(arr.E[k], window[o]) {
				return k
			}
		}
		return -1
	}
	order := iota(n)
	if c.Rev {
		order = revPerm(n)
	}
	mk := func() tensor.Iterator {
		it := t.Iterator()
		if c.Rev {
			it.SetReverse()
		}
		return it
	}
	var msg string
	pan := try(func() {
		// NextValidity: every position in order with its mask bit
		it := mk()
		for i, lk := range order {
			o, valid, err := it.NextValidity()
			if err != nil {
				msg = fmt.Sprintf("%s: NextValidity failed at step %d: %v", desc, i, err)
				return
			}
			if posOf(o) != lk {
				msg = fmt.Sprintf("%s: NextValidity step %d yields offset %d (logical position %d), expected position %d", desc, i, o, posOf(o), lk)
				return
			}
			if valid != !c.Mask[lk] {
				msg = fmt.Sprintf("%s: NextValidity at position %d reports valid=%v, mask bit is %v", desc, lk, valid, c.Mask[lk])
				return
			}
		}
		if _, _, err := it.NextValidity(); err == nil {
			msg = desc + ": NextValidity after exhaustion did not report it"
			return
		}
		// NextValid / NextInvalid: exactly the valid / invalid positions, with skip counts
		for _, wantInvalid := range []bool{false, true} {
			it := mk()
			name := "NextValid"
			if wantInvalid {
				name = "NextInvalid"
			}
			prev := -1 // index into order of the previous hit
			for i, lk := range order {
				if c.Mask[lk] != wantInvalid {
					continue
				}
				var o, skip int
				var err error
				if wantInvalid {
					o, skip, err = it.NextInvalid()
				} else {
					o, skip, err = it.NextValid()
				}
				if err != nil {
					msg = fmt.Sprintf("%s: %s failed although position %d qualifies: %v", desc, name, lk, err)
					return
				}
				if posOf(o) != lk {
					msg = fmt.Sprintf("%s: %s yields offset %d (logical position %d), expected position %d", desc, name, o, posOf(o), lk)
					return
				}
				wantSkip := i - prev
				if c.Rev {
					wantSkip = -wantSkip
				}
				if skip != wantSkip {
					msg = fmt.Sprintf("%s: %s reaching position %d reports skip %d, expected %d", desc, name, lk, skip, wantSkip)
					return
				}
				prev = i
			}
			var err error
			if wantInvalid {
				_, _, err = it.NextInvalid()
			} else {
				_, _, err = it.NextValid()
			}
			if err == nil {
				msg = fmt.Sprintf("%s: %s found another position after the last qualifying one", desc, name)
				return
			}
		}
	})
	if pan != "" {
		return desc + " panicked: " + pan
	}
	return msg
}

// ---------------------------------------------------------------- multi-iterator

type C05Multi struct {
	Shape []int    `json:"shape"`
	Ls    []Layout `json:"layouts"`
	Rev   bool     `json:"rev"`
	// Forms: for a vector of n elements, the shape each tensor gives it: 0 (n), 1 (n,1), 2 (1,n)
	Forms []int `json:"forms,omitempty"`
	// Prog: a history on the one iterator (steps, then reset | start | reverse | forward), as for the flat iterator
	Prog []C05Seg `json:"prog,omitempty"`
	// Cons: 0 MultIteratorFromDense, 1 IteratorFromDense, 2 NewIterator(access patterns), 3 NewMultIterator
	Cons int `json:"cons,omitempty"`
}

func init() { register("C05.multi", func() Case { return &C05Multi{} }) }

func (c *C05Multi) NTKey() string {
	if nonUnit(c.Shape) < 2 {
		return ""
	}
	return fmt.Sprintf("%v|%v|%v|%v|%v|%d", c.Shape, c.Ls, c.Rev, c.Forms, c.Prog, c.Cons)
}

func (c *C05Multi) Run() string {
	var ts []tensor.DenseTensor
	var arrs []Arr
	var windows [][]interface{}
	var stridesBefore [][]int
	for i, l := range c.Ls {
		shape := c.Shape
		if i < len(c.Forms) && len(c.Shape) == 1 {
			switch c.Forms[i] {
			case 1:
				shape = []int{c.Shape[0], 1}
			case 2:
				shape = []int{1, c.Shape[0]}
			}
			if len(shape) != len(c.Shape) {
				l = Layout{Root: l.Root}
			}
		}
		arr := seqArr(dtInt16, shape, int64(i)*5)
		b, err := Build(arr, l, nil)
		if err != nil {
			return inconclusive
		}
		ts = append(ts, b.T)
		arrs = append(arrs, arr)
		windows = append(windows, backingVals(b.T.Data()))
		stridesBefore = append(stridesBefore, cloneInts(b.T.Strides()))
	}
	desc := fmt.Sprintf("multi-iterator over shape %v layouts %v reverse=%v", c.Shape, c.Ls, c.Rev)
	var msg string
	pass := 0
	walk := func() {
		it := tensor.MultIteratorFromDense(ts...)
		if c.Cons > 0 {
			// the other constructors of the same iterator
			rec.Class(fmt.Sprintf("multi-cons:%d", c.Cons))
			aps := make([]*tensor.AP, len(ts))
			for i, x := range ts {
				aps[i] = x.Info()
			}
			switch {
			case c.Cons == 1 && len(ts) > 1:
				it = tensor.IteratorFromDense(ts...).(*tensor.MultIterator)
			case c.Cons == 2 && len(ts) > 1:
				it = tensor.NewIterator(aps...).(*tensor.MultIterator)
			default:
				it = tensor.NewMultIterator(aps...)
			}
		}
		if c.Rev {
			it.SetReverse()
		}
		n := prod(c.Shape)
		reverse := c.Rev
		steps := func(from, to int) bool {
			for k := from; k < to; k++ {
				lk := k
				if reverse {
					lk = n - 1 - k
				}
				if len(c.Prog) > 0 && it.Done() {
					msg = fmt.Sprintf("%s: Done() before step %d of %d (reverse=%v)", desc, k, n, reverse)
					return false
				}
				if _, err := it.Next(); err != nil {
					msg = fmt.Sprintf("%s: Next failed at step %d of %d: %v", desc, k, n, err)
					return false
				}
				for j := range ts {
					o := it.LastIndex(j)
					if o < 0 || o >= len(windows[j]) || !bitEqVal(windows[j][o], arrs[j].E[lk]) {
						msg = fmt.Sprintf("%s: step %d (reverse=%v): LastIndex(%d) = %d does not address tensor %d's element of logical position %d (strides %v)", desc, k, reverse, j, o, j, lk, ts[j].Strides())
						return false
					}
				}
			}
			return true
		}
		pos := 0
		// a history on the one iterator: partial walks, then a restart (Reset, Start) or a change of direction
		for si, sg := range c.Prog {
			rec.Class("multi-history:" + sg.Then)
			to := pos + sg.N
			if sg.N < 0 || to > n {
				to = n
			}
			if !steps(pos, to) {
				msg = fmt.Sprintf("segment %d of %v: %s", si, c.Prog, msg)
				return
			}
			pos = to
			switch sg.Then {
			case "reset":
				it.Reset()
				pos = 0
			case "reverse":
				it.SetReverse()
				it.Reset()
				reverse, pos = true, 0
			case "forward":
				it.SetForward()
				it.Reset()
				reverse, pos = false, 0
			case "start":
				if n > 0 {
					if _, err := it.Start(); err != nil {
						msg = fmt.Sprintf("%s: segment %d of %v: Start() failed: %v", desc, si, c.Prog, err)
						return
					}
					lk := 0
					if reverse {
						lk = n - 1
					}
					for j := range ts {
						o := it.LastIndex(j)
						if o < 0 || o >= len(windows[j]) || !bitEqVal(windows[j][o], arrs[j].E[lk]) {
							msg = fmt.Sprintf("%s: segment %d of %v: after Start() LastIndex(%d) = %d is not tensor %d's first element of the walk (reverse=%v)", desc, si, c.Prog, j, o, j, reverse)
							return
						}
					}
					pos = 1
				}
			}
		}
		if !steps(pos, n) {
			return
		}
		if len(c.Prog) > 0 && !it.Done() {
			msg = fmt.Sprintf("%s: not Done() after the last element (reverse=%v, history %v)", desc, reverse, c.Prog)
			return
		}
		if _, err := it.Next(); err == nil {
			msg = desc + ": Next after exhaustion did not report it"
		}
	}
	pan := try(func() {
		// twice: building and walking a multi-iterator leaves its operands as they were
		for pass = 0; pass < 2 && msg == ""; pass++ {
			walk()
			for j, t := range ts {
				if dt := t.(*tensor.Dense); !eqInts(dt.Strides(), stridesBefore[j]) {
					msg = fmt.Sprintf("%s: after pass %d the strides of operand %d are %v, they were %v", desc, pass, j, dt.Strides(), stridesBefore[j])
					return
				}
				if m := compareAt(t.(*tensor.Dense), arrs[j], bitEqVal); m != "" {
					msg = fmt.Sprintf("%s: after pass %d operand %d: %s", desc, pass, j, m)
					return
				}
			}
		}
	})
	if pan != "" {
		return desc + " panicked: " + pan
	}
	if msg != "" && pass > 0 {
		msg = fmt.Sprintf("(pass %d) ", pass) + msg
	}
	return msg
}

// ---------------------------------------------------------------- cells

var c05Layouts = []string{"contig", "lazyT", "sliced", "stepsliced", "slicedT", "Tsliced", "picked", "pickslice", "materialized", "clonedview", "physT", "cmraw", "cmconv", "cmraw+sliced", "cmraw+lazyT"}
var c05VecShapes = [][]int{{}, {1}, {3}, {1, 3}, {3, 1}, {1, 1, 3}, {1, 3, 1}, {3, 1, 1}, {1, 1}, {1, 1, 1, 4}, {1, 4, 1, 1}, {2, 1, 3}, {1, 2, 3}, {2, 3, 1}}

func genC05Shape(rt *rapid.T) []int {
	if rapid.IntRange(0, 2).Draw(rt, "vecclass") == 0 {
		return cloneInts(rapid.SampledFrom(c05VecShapes).Draw(rt, "vec"))
	}
	s := genShape(rt, 0, 4, 4, "s")
	for prod(s) > 60 {
		s = s[1:]
	}
	return s
}

func TestC05(t *testing.T) {
	walks := []string{"forward", "reverse", "reset", "revreset", "switch", "switchback", "twice", "prog", "chan", "slice"}
	for _, lk := range c05Layouts {
		for _, walk := range walks {
			lk, walk := lk, walk
			cell(t, "C05", "C05.flat", lk+"/"+walk, nCases(40, 1500), func(rt *rapid.T) Case {
				shape := genC05Shape(rt)
				c := &C05Case{Shape: shape, L: genLayoutKind(rt, lk, len(shape), "l"), Via: rapid.SampledFrom([]string{"flat", "iterator", "newiter"}).Draw(rt, "via"), Walk: walk, K: rapid.IntRange(0, prod(shape)).Draw(rt, "k")}
				c.Stepper = rapid.SampledFrom([]string{"", "", "valid", "validity"}).Draw(rt, "stepper")
				if walk == "prog" {
					for i, ns := 0, rapid.IntRange(1, 4).Draw(rt, "nseg"); i < ns; i++ {
						sg := C05Seg{N: rapid.IntRange(-1, prod(shape)+1).Draw(rt, "n"), Then: rapid.SampledFrom([]string{"reset", "reverse", "forward", "reverse", "forward", "", "start"}).Draw(rt, "then")}
						if rapid.IntRange(0, 2).Draw(rt, "exhaust") == 0 {
							sg.N = -1
						}
						c.Prog = append(c.Prog, sg)
					}
				}
				return c
			})
		}
	}
	// every mask over <= 8 elements
	for _, shape := range [][]int{{}, {1}, {3}, {5}, {8}, {1, 4}, {4, 1}, {2, 3}, {2, 4}, {2, 2, 2}, {1, 2, 3}} {
		for _, root := range []string{"rm", "cmraw"} {
			shape, root := shape, root
			n := prod(shape)
			cell(t, "C05", "C05.maskedall", fmt.Sprintf("allmasks/%v/%s", shape, root), 1, func(rt *rapid.T) Case {
				return &C05AllMasks{Shape: shape, Root: root, N: n}
			})
		}
	}
	// masked views: the mask travels with the storage window of the view
	for _, lk := range []string{"sliced", "stepsliced", "leadsliced", "lazyT", "picked", "slicedT", "cmraw+sliced"} {
		lk := lk
		cell(t, "C05", "C05.masked", "maskedview/"+lk, nCases(60, 2500), func(rt *rapid.T) Case {
			shape := genShapeMin2(rt, 1, 3, 3, "s")
			mask := make([]bool, prod(shape))
			for i := range mask {
				mask[i] = rapid.Bool().Draw(rt, "m")
			}
			return &C05Mask{Shape: shape, Mask: mask, Rev: rapid.IntRange(0, 3).Draw(rt, "rev") == 0, L: genLayoutKind(rt, lk, len(shape), "l")}
		})
	}
	// larger shapes (dimensions up to 100): layout bookkeeping keyed on strides, and anything else that small
	// dimensions cannot tell apart
	for _, nt := range []int{2, 3} {
		nt := nt
		cell(t, "C05", "C05.multi", fmt.Sprintf("multi-large/%d", nt), nCases(20, 600), func(rt *rapid.T) Case {
			shape := []int{rapid.IntRange(2, 100).Draw(rt, "m"), rapid.IntRange(1, 4).Draw(rt, "n")}
			if rapid.Bool().Draw(rt, "hostile") {
				// dimensions around powers of two and around multiples of small primes times the other dimension
				n := shape[1]
				shape[0] = rapid.SampledFrom([]int{7, 8, 9, 15, 16, 17, 31, 32, 33, 63, 64, 65, 31*n - 30, 31*n - 31, 31 * n, 33*n - 32, 17*n - 16, 37*n - 36, 2 * n, n * n}).Draw(rt, "mh")
				if shape[0] < 2 {
					shape[0] = 2
				}
			}
			if rapid.Bool().Draw(rt, "swap") {
				shape[0], shape[1] = shape[1], shape[0]
			}
			if rapid.IntRange(0, 3).Draw(rt, "r3") == 0 {
				shape = append(shape, rapid.IntRange(1, 3).Draw(rt, "k"))
			}
			c := &C05Multi{Shape: shape, Rev: rapid.IntRange(0, 4).Draw(rt, "rev") == 0}
			for i := 0; i < nt; i++ {
				lk := rapid.SampledFrom([]string{"contig", "lazyT", "cmraw", "cmraw", "lazyT", "sliced"}).Draw(rt, "lk")
				c.Ls = append(c.Ls, genLayoutKind(rt, lk, len(shape), fmt.Sprintf("l%d", i)))
			}
			return c
		})
	}
	for _, lk := range []string{"contig", "lazyT", "cmraw", "stepsliced"} {
		lk := lk
		cell(t, "C05", "C05.flat", "flat-large/"+lk, nCases(10, 300), func(rt *rapid.T) Case {
			shape := []int{rapid.IntRange(2, 100).Draw(rt, "m"), rapid.IntRange(1, 4).Draw(rt, "n")}
			if rapid.Bool().Draw(rt, "swap") {
				shape[0], shape[1] = shape[1], shape[0]
			}
			return &C05Case{Shape: shape, L: genLayoutKind(rt, lk, 2, "l"), Via: rapid.SampledFrom([]string{"flat", "iterator", "newiter"}).Draw(rt, "via"), Walk: rapid.SampledFrom([]string{"forward", "reverse", "twice"}).Draw(rt, "walk")}
		})
	}
	// multi-iterator histories: restarted, started, turned around
	for _, nt := range []int{1, 2, 3} {
		nt := nt
		cell(t, "C05", "C05.multi", fmt.Sprintf("multi-history/%d", nt), nCases(100, 4000), func(rt *rapid.T) Case {
			shape := genShapeMin2(rt, 1, 4, 3, "s")
			c := &C05Multi{Shape: shape, Rev: rapid.IntRange(0, 4).Draw(rt, "rev") == 0}
			for i := 0; i < nt; i++ {
				lk := rapid.SampledFrom([]string{"contig", "lazyT", "sliced", "stepsliced", "materialized", "slicedT"}).Draw(rt, "lk")
				c.Ls = append(c.Ls, genLayoutKind(rt, lk, len(shape), fmt.Sprintf("l%d", i)))
			}
			for i, ns := 0, rapid.IntRange(1, 4).Draw(rt, "nseg"); i < ns; i++ {
				sg := C05Seg{N: rapid.IntRange(0, prod(shape)+1).Draw(rt, "n"), Then: rapid.SampledFrom([]string{"reset", "reverse", "forward", "start", "reset", "start"}).Draw(rt, "then")}
				if rapid.IntRange(0, 2).Draw(rt, "exhaust") == 0 {
					sg.N = -1
				}
				c.Prog = append(c.Prog, sg)
			}
			c.Cons = rapid.IntRange(0, 3).Draw(rt, "cons")
			return c
		})
	}
	// multi-iterator
	for _, nt := range []int{2, 3} {
		nt := nt
		cell(t, "C05", "C05.multi", fmt.Sprintf("multi/%d", nt), nCases(150, 6000), func(rt *rapid.T) Case {
			shape := genShapeMin2(rt, 1, 4, 3, "s")
			c := &C05Multi{Shape: shape, Rev: rapid.IntRange(0, 4).Draw(rt, "rev") == 0}
			for i := 0; i < nt; i++ {
				lk := rapid.SampledFrom([]string{"contig", "lazyT", "sliced", "stepsliced", "materialized", "slicedT"}).Draw(rt, "lk")
				c.Ls = append(c.Ls, genLayoutKind(rt, lk, len(shape), fmt.Sprintf("l%d", i)))
			}
			return c
		})
	}
}

// C05AllMasks sweeps every mask over the elements of a small shape, both directions.
type C05AllMasks struct {
	Shape []int  `json:"shape"`
	Root  string `json:"root"`
	N     int    `json:"n"`
}

func init() { register("C05.maskedall", func() Case { return &C05AllMasks{} }) }

func (c *C05AllMasks) NTKey() string { return fmt.Sprintf("%v|%s", c.Shape, c.Root) }

func (c *C05AllMasks) Run() string {
	n := prod(c.Shape)
	cnt := 0
	for bits := 0; bits < 1<<uint(n); bits++ {
		mask := make([]bool, n)
		for i := range mask {
			mask[i] = bits>>uint(i)&1 == 1
		}
		for _, rev := range []bool{false, true} {
			resetLib()
			rec.Eval()
			sub := &C05Mask{Shape: c.Shape, Mask: mask, Root: c.Root, Rev: rev}
			if msg := sub.Run(); msg != "" && msg != inconclusive {
				return msg
			}
			if sub.NTKey() != "" {
				rec.NonTrivial("mask|" + sub.NTKey())
			}
			cnt++
		}
	}
	rec.ClassN("masks-swept", cnt)
	return ""
}

// inF41 is the region of known finding F41: a multi-iterator over a (1,n) or
// (n,1) tensor that is a strided view.
func inF41(shape []int, layoutKind string) bool {
	if len(shape) != 2 || (shape[0] != 1 && shape[1] != 1) {
		return false
	}
	switch layoutKind {
	case "sliced", "stepsliced", "slicedT":
		return true
	}
	return false
}
