package props

import (
	"fmt"
	"math"
	"reflect"
	"testing"

	"gorgonia.org/tensor"
	"pgregory.net/rapid"
)

// C09 — linear-algebra products equal the textbook sums of products.

type C09Case struct {
	Op    string `json:"op"` // Inner | MatVecMul | MatMul | Outer | TensorMul | Dot | Trace
	DT    string `json:"dt"`
	A     Opnd   `json:"a"`
	B     *Opnd  `json:"b,omitempty"`
	AxesA []int  `json:"axesA,omitempty"`
	AxesB []int  `json:"axesB,omitempty"`
	Mode  string `json:"mode"` // safe | reuse | incr
	Via   string `json:"via"`  // method | pkg
	Dst   *Opnd  `json:"dst,omitempty"`
	DstT  bool   `json:"dstT,omitempty"` // the destination is lazily transposed into the result's shape
	Eng   string `json:"engine,omitempty"`
}

func init() { register("C09.linalg", func() Case { return &C09Case{} }) }

func isVecShape(s []int) bool {
	return len(s) == 1 || (len(s) == 2 && (s[0] == 1 || s[1] == 1))
}

func (c *C09Case) NTKey() string {
	big := func(s []int) bool { return len(s) >= 2 && s[0] >= 2 && s[1] >= 2 }
	if !(big(c.A.Shape) || (c.B != nil && big(c.B.Shape)) || c.Op == "Inner" || c.Op == "Outer") {
		return ""
	}
	if prod(c.A.Shape) < 2 {
		return ""
	}
	return fmt.Sprintf("%s|%s|%v%v|%s|%v|%v|%s|%s|%s|%v", c.Op, c.DT, c.A.Shape, c.A.L, opndKey(c.B), c.AxesA, c.AxesB, c.Mode, c.Via, c.Eng, c.DstT)
}

func opndKey(o *Opnd) string {
	if o == nil {
		return "-"
	}
	return fmt.Sprintf("%v%v", o.Shape, o.L)
}

func mulAdd(acc, a, b interface{}) interface{} {
	p, _ := binop("Mul", a, b)
	r, _ := binop("Add", acc, p)
	return r
}

// tensordot contracts axes aa of a with axes bb of b (textbook definition).
func tensordot(a, b Arr, aa, bb []int) Arr {
	inA := make([]bool, len(a.Shape))
	inB := make([]bool, len(b.Shape))
	var cshape []int
	for i := range aa {
		inA[aa[i]] = true
		inB[bb[i]] = true
		cshape = append(cshape, a.Shape[aa[i]])
	}
	var freeA, freeB []int
	var out []int
	for i, d := range a.Shape {
		if !inA[i] {
			freeA = append(freeA, i)
			out = append(out, d)
		}
	}
	for i, d := range b.Shape {
		if !inB[i] {
			freeB = append(freeB, i)
			out = append(out, d)
		}
	}
	if out == nil {
		out = []int{}
	}
	if cshape == nil {
		cshape = []int{}
	}
	res := Arr{DT: a.DT, Shape: out, E: make([]interface{}, prod(out))}
	ca := make([]int, len(a.Shape))
	cb := make([]int, len(b.Shape))
	ccs := coordsOf(cshape)
	for k, oc := range coordsOf(out) {
		for i, ax := range freeA {
			ca[ax] = oc[i]
		}
		for i, ax := range freeB {
			cb[ax] = oc[len(freeA)+i]
		}
		acc := zeroOf(a.DT)
		for _, cc := range ccs {
			for i := range aa {
				ca[aa[i]] = cc[i]
				cb[bb[i]] = cc[i]
			}
			acc = mulAdd(acc, a.At(ca), b.At(cb))
		}
		res.E[k] = acc
	}
	return res
}

func vecOf(a Arr) Arr { return Arr{DT: a.DT, Shape: []int{len(a.E)}, E: a.E} }

// model computes the expected result; ok=false when the operands do not fit (must be refused).
func (c *C09Case) model(a, b Arr) (want Arr, ok bool) {
	switch c.Op {
	case "Inner":
		if !isVecShape(a.Shape) || !isVecShape(b.Shape) || len(a.E) != len(b.E) {
			return want, false
		}
		return tensordot(vecOf(a), vecOf(b), []int{0}, []int{0}), true
	case "MatVecMul":
		if len(a.Shape) != 2 || !isVecShape(b.Shape) || a.Shape[1] != len(b.E) {
			return want, false
		}
		return tensordot(a, vecOf(b), []int{1}, []int{0}), true
	case "MatMul":
		if len(a.Shape) != 2 || len(b.Shape) != 2 || a.Shape[1] != b.Shape[0] {
			return want, false
		}
		return tensordot(a, b, []int{1}, []int{0}), true
	case "Outer":
		if !isVecShape(a.Shape) || !isVecShape(b.Shape) {
			return want, false
		}
		return tensordot(vecOf(a), vecOf(b), nil, nil), true
	case "TensorMul":
		if len(c.AxesA) != len(c.AxesB) {
			return want, false
		}
		for i := range c.AxesA {
			if a.Shape[c.AxesA[i]] != b.Shape[c.AxesB[i]] {
				return want, false
			}
		}
		w := tensordot(a, b, c.AxesA, c.AxesB)
		if len(w.Shape) == 0 {
			w.Shape = []int{1} // documented: a full contraction is returned with shape (1)
		}
		return w, true
	case "Trace":
		if len(a.Shape) != 2 {
			return want, false
		}
		m := a.Shape[0]
		if a.Shape[1] < m {
			m = a.Shape[1]
		}
		acc := zeroOf(a.DT)
		for i := 0; i < m; i++ {
			acc, _ = binop("Add", acc, a.At([]int{i, i}))
		}
		return Arr{DT: a.DT, Shape: []int{}, E: []interface{}{acc}}, true
	case "Dot":
		// documented NumPy-like dispatch; (n), (n,1), (1,n) operands are vectors
		sa, sb := len(a.Shape) == 0, len(b.Shape) == 0
		switch {
		case sa && sb:
			p, _ := binop("Mul", a.E[0], b.E[0])
			return Arr{DT: a.DT, Shape: []int{}, E: []interface{}{p}}, true
		case sa:
			return b.Map(func(v interface{}) interface{} { p, _ := binop("Mul", a.E[0], v); return p }), true
		case sb:
			return a.Map(func(v interface{}) interface{} { p, _ := binop("Mul", v, b.E[0]); return p }), true
		}
		va, vb := isVecShape(a.Shape), isVecShape(b.Shape)
		switch {
		case va && vb:
			if len(a.E) != len(b.E) {
				return want, false
			}
			return tensordot(vecOf(a), vecOf(b), []int{0}, []int{0}), true
		case va && len(b.Shape) == 2:
			if b.Shape[0] != len(a.E) {
				return want, false
			}
			return tensordot(vecOf(a), b, []int{0}, []int{0}), true
		case len(a.Shape) == 2 && vb:
			if a.Shape[1] != len(b.E) {
				return want, false
			}
			return tensordot(a, vecOf(b), []int{1}, []int{0}), true
		case len(a.Shape) == 2 && len(b.Shape) == 2:
			if a.Shape[1] != b.Shape[0] {
				return want, false
			}
			return tensordot(a, b, []int{1}, []int{0}), true
		}
		la := len(a.Shape) - 1
		lb := 0
		if len(b.Shape) >= 2 {
			lb = len(b.Shape) - 2
		}
		if a.Shape[la] != b.Shape[lb] {
			return want, false
		}
		w := tensordot(a, b, []int{la}, []int{lb})
		if len(w.Shape) == 0 {
			w.Shape = []int{1}
		}
		return w, true
	}
	panic("HARNESS: unknown C09 op " + c.Op)
}

// claimed says whether the operand layouts are inside the domain the statement
// positively claims (contiguous, lazily transposed, sliced); elsewhere a panic
// counts as a loud refusal.
func c09Claimed(l Layout) bool {
	if l.IsCM() || l.Final == "clone" {
		return false
	}
	return true
}

func (c *C09Case) Run() string {
	tensor.VerifTrackPools(true)
	defer tensor.VerifTrackPools(false)
	return c.run()
}

func (c *C09Case) run() string {
	d := dtByName(c.DT)
	A, msg := buildOpnd(&c.A, d)
	if msg != "" {
		return msg
	}
	withEngine(A.b.T, c.Eng)
	var B *opndB
	var bArr Arr
	if c.B != nil {
		if B, msg = buildOpnd(c.B, d); msg != "" {
			return msg
		}
		withEngine(B.b.T, c.Eng)
		bArr = B.arr
	}
	want, fits := c.model(A.arr, bArr)
	var opts []tensor.FuncOpt
	var Dst *opndB
	var scratch *tensor.Dense
	if fits && (c.Mode == "reuse" || c.Mode == "incr" || c.Mode == "reuse+incr") && c.Dst != nil {
		dst := *c.Dst
		dst.Shape = want.Shape
		if c.DstT && len(want.Shape) >= 2 && prod(want.Shape) > 1 {
			// a destination that already has the right logical shape, through a pending lazy transposition
			dst.L = Layout{Root: dst.L.Root, Steps: []LStep{{Op: "T", Perm: revPerm(len(want.Shape))}}}
			rec.Class("destination:lazyT")
		}
		if len(dst.Codes) < prod(want.Shape) {
			dst.Codes = append(dst.Codes, make([]int64, prod(want.Shape)-len(dst.Codes))...)
		}
		if Dst, msg = buildOpnd(&dst, d); msg != "" {
			return msg
		}
		withEngine(Dst.b.T, c.Eng)
		switch c.Mode {
		case "reuse":
			opts = append(opts, tensor.WithReuse(Dst.b.T))
		case "incr":
			opts = append(opts, tensor.WithIncr(Dst.b.T))
		default:
			// both at once: the product goes through the reuse tensor and is added into the increment
			// tensor, which is returned (the dispatching Dot forwards the pair to the products)
			scratch = tensor.New(tensor.Of(d.T), tensor.WithShape(want.Shape...))
			opts = append(opts, tensor.WithReuse(scratch), tensor.WithIncr(Dst.b.T))
		}
	}
	desc := fmt.Sprintf("%s(%s, mode %s via %s eng %q) a=%v%v b=%s axes %v/%v", c.Op, c.DT, c.Mode, c.Via, c.Eng, c.A.Shape, c.A.L, opndKey(c.B), c.AxesA, c.AxesB)
	var res interface{}
	var lerr error
	aT := A.b.T
	// metadata snapshots: products must not change shape, strides or a pending transpose of their operands
	metaA := metaOf(aT)
	var metaB string
	if B != nil {
		metaB = metaOf(B.b.T)
	}
	pan := try(func() {
		switch c.Op {
		case "Inner":
			if c.Via == "pkg" {
				res, lerr = tensor.Inner(aT, B.b.T)
			} else {
				res, lerr = aT.Inner(B.b.T)
			}
		case "MatVecMul":
			if c.Via == "pkg" {
				res, lerr = tensor.MatVecMul(aT, B.b.T, opts...)
			} else {
				res, lerr = aT.MatVecMul(B.b.T, opts...)
			}
		case "MatMul":
			if c.Via == "pkg" {
				res, lerr = tensor.MatMul(aT, B.b.T, opts...)
			} else {
				res, lerr = aT.MatMul(B.b.T, opts...)
			}
		case "Outer":
			if c.Via == "pkg" {
				res, lerr = tensor.Outer(aT, B.b.T, opts...)
			} else {
				res, lerr = aT.Outer(B.b.T, opts...)
			}
		case "TensorMul":
			if c.Via == "pkg" {
				res, lerr = tensor.Contract(aT, B.b.T, cloneIntsNN(c.AxesA), cloneIntsNN(c.AxesB))
			} else {
				res, lerr = aT.TensorMul(B.b.T, cloneIntsNN(c.AxesA), cloneIntsNN(c.AxesB))
			}
		case "Dot":
			res, lerr = tensor.Dot(aT, B.b.T, opts...)
		case "Trace":
			res, lerr = aT.Trace()
		}
	})
	claimed := c09Claimed(c.A.L) && (c.B == nil || c09Claimed(c.B.L)) && (c.Dst == nil || c09Claimed(c.Dst.L))
	unchanged := func() string {
		if m := A.unchanged("operand a"); m != "" {
			return m
		}
		if m := metaOf(aT); m != metaA {
			return fmt.Sprintf("operand a's metadata changed from %s to %s", metaA, m)
		}
		if B != nil {
			if m := B.unchanged("operand b"); m != "" {
				return m
			}
			if m := metaOf(B.b.T); m != metaB {
				return fmt.Sprintf("operand b's metadata changed from %s to %s", metaB, m)
			}
		}
		return ""
	}
	if pan != "" {
		if !fits {
			rec.Class("unfit:panic")
			return unchanged() // "refused loudly": a panic on operands that do not fit is loud
		}
		if !claimed || !d.IsFloat() {
			rec.Class("panic-refusal")
			if m := unchanged(); m != "" {
				return desc + ": refused (panic), but " + m
			}
			return ""
		}
		return desc + " panicked: " + pan
	}
	if !fits {
		rec.Class("unfit")
		if lerr == nil {
			return desc + fmt.Sprintf(": operands do not fit but a result was returned: %v", res)
		}
		if m := unchanged(); m != "" {
			return desc + ": refused, but " + m
		}
		return ""
	}
	if lerr != nil {
		rec.Class("refusal")
		// a loud refusal is allowed, a wrong number never
		if m := unchanged(); m != "" {
			return desc + ": refused, but " + m
		}
		lateRefusal := c.A.L.Final == "clone" || (c.B != nil && c.B.L.Final == "clone") // (an operand that owns storage with gaps is refused when the operands are handed to BLAS, after the destination has been prepared)
		if lateRefusal {
			rec.Class("refusal:operand-owning-gaps")
		}
		if Dst != nil && (d.IsFloat() || d.IsComplex()) && !lateRefusal {
			// (an element type the engine does not multiply is refused by the engine, after the destination has
			// been prepared - reshaped, a pending transposition dropped; the statement speaks of the operands and
			// of results, not of the destination of a refused call)
			if m := Dst.unchanged("the destination of a refused product"); m != "" && c.Op != "Outer" {
				return desc + ": " + m
			}
		}
		allContig := c.A.L.IsContig() && !c.A.L.IsCM() && (c.B == nil || (c.B.L.IsContig() && !c.B.L.IsCM()))
		if allContig && d.IsFloat() && c.Mode == "safe" && !isRefusable(c) {
			return desc + ": refused a supported combination: " + lerr.Error()
		}
		return ""
	}
	rec.Class("computed")
	c09Last = fmt.Sprint(res)
	if scratch != nil && c.Op != "Dot" {
		// the reuse tensor that carried the product is the caller's: still a tensor of the result's shape
		// holding the product, also after the pools have been stirred
		dirtyPools()
		if !eqInts([]int(scratch.Shape()), want.Shape) || scratch.DataSize() != prod(want.Shape) {
			return desc + fmt.Sprintf(": the reuse tensor that carried the product now has shape %v and %d elements of storage (the product has shape %v)", scratch.Shape(), scratch.DataSize(), want.Shape)
		}
		if m := compareAt(scratch, want, eqVal); m != "" {
			return desc + ": the reuse tensor that carried the product: " + m
		}
	}
	if (c.Mode == "incr" || c.Mode == "reuse+incr") && Dst != nil {
		w := Arr{DT: want.DT, Shape: want.Shape, E: make([]interface{}, len(want.E))}
		for k := range want.E {
			w.E[k], _ = binop("Add", Dst.arr.E[k], want.E[k])
		}
		want = w
	}
	var rt tensor.Tensor
	switch r := res.(type) {
	case tensor.Tensor:
		if r == nil || reflect.ValueOf(r).IsNil() {
			return desc + ": returned nil without an error"
		}
		rt = r
	default:
		// Inner and Trace return a bare value
		if len(want.E) != 1 || !eqVal(res, want.E[0]) {
			return desc + fmt.Sprintf(": returned %v, expected %s", res, fmtVals(want.E))
		}
	}
	if rt != nil {
		if len(want.Shape) == 0 || (c.Op == "Dot" && len(want.E) == 1 && rt.Shape().IsScalar()) {
			if rt.Shape().TotalSize() != 1 {
				return desc + fmt.Sprintf(": result has shape %v, expected a scalar", rt.Shape())
			}
			want.Shape = []int{}
		}
		if m := compareAt(rt, want, eqVal); m != "" {
			return desc + ": result: " + m
		}
		if Dst != nil && c.Op != "Dot" {
			if rd, ok := rt.(*tensor.Dense); ok && rd != Dst.b.T {
				return desc + ": the returned tensor is not the reuse/incr destination"
			}
		}
	}
	if m := unchanged(); m != "" {
		return desc + ": " + m
	}
	// the delivered matrix is an ordinary tensor: as the operand of a further product it stands for its logical
	// contents (a destination that arrived with a pending transposition has none left)
	if rd, ok := res.(*tensor.Dense); ok && d.IsFloat() && len(want.Shape) == 2 && prod(want.Shape) > 0 && c.Op != "Dot" {
		ones := tensor.New(tensor.WithShape(want.Shape[1]), tensor.WithBacking(mkBacking(d, seqArrConst(d, want.Shape[1], 1))))
		var mv *tensor.Dense
		var merr error
		if p := try(func() { mv, merr = rd.MatVecMul(ones) }); p != "" {
			return desc + ": using the result as the operand of a further product panicked: " + p
		}
		if merr == nil {
			rows := Arr{DT: d, Shape: []int{want.Shape[0]}, E: make([]interface{}, want.Shape[0])}
			finite := true
			for i := 0; i < want.Shape[0]; i++ {
				acc := 0.0
				for j := 0; j < want.Shape[1]; j++ {
					acc += toF64(want.E[i*want.Shape[1]+j])
				}
				for j := 0; j < want.Shape[1]; j++ {
					// (exact only for small integer values: anything else depends on the order of the sum)
					if v := toF64(want.E[i*want.Shape[1]+j]); v != math.Trunc(v) || math.Abs(v) > 1<<20 {
						finite = false
					}
				}
				rows.E[i] = conv(d, 0)
				if d.Name == "float32" {
					rows.E[i] = float32(acc)
				} else {
					rows.E[i] = acc
				}
			}
			if finite {
				if m := compareAt(mv, rows, eqVal); m != "" {
					return desc + ": the result, used as the operand of a further product (times a vector of ones), does not stand for the contents it reads back with: " + m
				}
			}
		}
	}
	if Dst != nil && (c.Mode == "reuse" || c.Mode == "incr") && Dst.b.T == Dst.b.Root && c.Op != "Dot" {
		// the caller is done with the destination and hands it back: nothing may reach the pools twice
		// (whatever the call returned to the pools on the destination's behalf, the destination no longer holds)
		if rd, ok := res.(*tensor.Dense); ok && rd == Dst.b.T {
			tensor.VerifPoolEvents()
			tensor.ReturnTensor(rd)
			for _, e := range tensor.VerifPoolEvents() {
				if e.Kind == "double-return" {
					return desc + fmt.Sprintf(": handing the destination back with ReturnTensor after the product returned a slice of %d ints to the pool a second time", e.Size)
				}
			}
		}
	}
	return ""
}

// isRefusable: combinations the library documents as unsupported (none known for plain float products).
func isRefusable(c *C09Case) bool { return false }

func metaOf(t *tensor.Dense) string {
	return fmt.Sprintf("shape%v strides%v order%v", t.Shape(), t.Strides(), t.DataOrder())
}

// ---------------------------------------------------------------- generators

func genVecForm(rt *rapid.T, n int, label string) []int {
	switch rapid.IntRange(0, 2).Draw(rt, label) {
	case 0:
		return []int{n}
	case 1:
		return []int{n, 1}
	}
	return []int{1, n}
}

var c09Layouts = []string{"contig", "lazyT", "sliced", "stepsliced", "materialized", "physT", "Tsliced", "leadsliced", "picked", "clonedview"}

func c09Values(rt *rapid.T, shape []int, lk string, label string) Opnd {
	return genOpnd(rt, shape, lk, -3, 4, 0, label)
}

func genC09(rt *rapid.T, op string, d DT, mode string, layouts []string) *C09Case {
	cplxCodes = d.IsComplex()
	defer func() { cplxCodes = false }()
	c := &C09Case{Op: op, DT: d.Name, Mode: mode, Via: rapid.SampledFrom([]string{"method", "pkg"}).Draw(rt, "via")}
	la := rapid.SampledFrom(layouts).Draw(rt, "la")
	lb := rapid.SampledFrom(layouts).Draw(rt, "lb")
	dim := func(l string) int { return rapid.IntRange(1, 4).Draw(rt, l) }
	var sa, sb []int
	switch op {
	case "Inner":
		n := 1 + dim("n") // a one-element "vector" is a scalar to the library
		sa, sb = genVecForm(rt, n, "fa"), genVecForm(rt, n, "fb")
	case "MatVecMul":
		m, n := dim("m"), 1+dim("n")
		sa, sb = []int{m, n}, genVecForm(rt, n, "fb")
	case "MatMul":
		m, k, n := dim("m"), dim("k"), dim("n")
		sa, sb = []int{m, k}, []int{k, n}
	case "Outer":
		sa, sb = genVecForm(rt, 1+dim("m"), "fa"), genVecForm(rt, 1+dim("n"), "fb")
	case "Trace":
		sa = []int{dim("m"), dim("n")}
	case "TensorMul":
		ra, rb := rapid.IntRange(1, 4).Draw(rt, "ra"), rapid.IntRange(1, 4).Draw(rt, "rb")
		sa, sb = make([]int, ra), make([]int, rb)
		for i := range sa {
			sa[i] = rapid.IntRange(1, 3).Draw(rt, "da")
		}
		for i := range sb {
			sb[i] = rapid.IntRange(1, 3).Draw(rt, "db")
		}
		nc := rapid.IntRange(1, 2).Draw(rt, "nc")
		if nc > ra {
			nc = ra
		}
		if nc > rb {
			nc = rb
		}
		pa := rapid.Permutation(iota(ra)).Draw(rt, "pa")[:nc]
		pb := rapid.Permutation(iota(rb)).Draw(rt, "pb")[:nc]
		for i := 0; i < nc; i++ {
			sb[pb[i]] = sa[pa[i]]
		}
		c.AxesA, c.AxesB = pa, pb
		c.Via = rapid.SampledFrom([]string{"method", "pkg"}).Draw(rt, "via2")
	case "Dot":
		ra, rb := rapid.IntRange(0, 4).Draw(rt, "ra"), rapid.IntRange(0, 4).Draw(rt, "rb")
		sa, sb = make([]int, ra), make([]int, rb)
		for i := range sa {
			sa[i] = rapid.IntRange(1, 3).Draw(rt, "da")
		}
		for i := range sb {
			sb[i] = rapid.IntRange(1, 3).Draw(rt, "db")
		}
		// make the contracted dims fit
		if ra > 0 && rb > 0 {
			va, vb := isVecShape(sa), isVecShape(sb)
			switch {
			case va && vb:
				n := prod(sa)
				for i := range sb {
					if sb[i] != 1 || len(sb) == 1 {
						sb[i] = n
					}
				}
				if prod(sb) != n {
					sb = []int{n}
				}
			case va && rb == 2:
				sb[0] = prod(sa)
			case ra == 2 && vb:
				n := sa[1]
				sb = genVecForm(rt, n, "fb")
			default:
				lbx := 0
				if rb >= 2 {
					lbx = rb - 2
				}
				sb[lbx] = sa[ra-1]
			}
		}
		c.Via = "pkg"
	}
	c.A = c09Values(rt, sa, la, "a")
	if sb != nil {
		b := c09Values(rt, sb, lb, "b")
		c.B = &b
	}
	if mode != "safe" {
		dst := Opnd{Shape: []int{1}, Codes: genCodes(rt, 64, -3, 4, 0, "dstv"), L: Layout{Root: "rm"}}
		c.Dst = &dst
		c.DstT = rapid.IntRange(0, 3).Draw(rt, "dstT") == 0
	}
	return c
}

func TestC09(t *testing.T) {
	for _, op := range []string{"Inner", "MatVecMul", "MatMul", "Outer", "TensorMul", "Dot", "Trace"} {
		for _, d := range floatCplxDTs {
			modes := []string{"safe", "reuse", "incr"}
			if op == "Inner" || op == "Trace" || op == "TensorMul" {
				modes = []string{"safe"}
			}
			if op == "MatVecMul" || op == "MatMul" || op == "Dot" {
				modes = append(modes, "reuse+incr")
			}
			for _, mode := range modes {
				op, d, mode := op, d, mode
				cell(t, "C09", "C09.linalg", op+"/"+d.Name+"/"+mode, nCases(60, 2500), func(rt *rapid.T) Case {
					return avoidC09Regions(genC09(rt, op, d, mode, c09Layouts))
				})
			}
		}
	}
	// integer element types: whatever is not supported is refused, never computed from the wrong storage
	for _, op := range []string{"Inner", "MatVecMul", "MatMul", "Outer", "TensorMul", "Dot"} {
		for _, d := range []DT{dtInt, dtInt32, dtUint8, dtInt64} {
			op, d := op, d
			cell(t, "C09", "C09.linalg", op+"/"+d.Name+"/integers", nCases(8, 200), func(rt *rapid.T) Case {
				return avoidC09Regions(genC09(rt, op, d, rapid.SampledFrom([]string{"safe", "safe", "reuse"}).Draw(rt, "imode"), c09Layouts))
			})
		}
	}
	// the trace is defined for every numeric element type (integer sums wrap)
	for _, d := range numDTs {
		if d.IsFloat() || d.IsComplex() {
			continue
		}
		d := d
		cell(t, "C09", "C09.linalg", "Trace/"+d.Name+"/safe", nCases(30, 800), func(rt *rapid.T) Case {
			return avoidC09Regions(genC09(rt, "Trace", d, "safe", c09Layouts))
		})
	}
	// operands that do not fit must be refused
	for _, op := range []string{"Inner", "MatVecMul", "MatMul", "TensorMul", "Dot"} {
		op := op
		cell(t, "C09", "C09.linalg", op+"/unfit", nCases(30, 500), func(rt *rapid.T) Case {
			c := genC09(rt, op, dtF64, "safe", []string{"contig"})
			if c.B != nil && len(c.B.Shape) > 0 {
				i := rapid.IntRange(0, len(c.B.Shape)-1).Draw(rt, "bump")
				c.B.Shape[i] += 1 + rapid.IntRange(0, 1).Draw(rt, "by")
				c.B.Codes = genCodes(rt, prod(c.B.Shape), -3, 4, 0, "bv2")
			}
			return avoidC09Regions(c)
		})
	}
}

// inF43: TensorMul, and Dot of operands of rank >= 3, with a length-one axis
// (the reshaped 2-D operands degenerate to (1,1)/(n,1) and Dot mis-dispatches them).
func inF43(c *C09Case) bool {
	hasOne := func(s []int) bool {
		for _, d := range s {
			if d == 1 {
				return true
			}
		}
		return false
	}
	switch c.Op {
	case "TensorMul":
		return hasOne(c.A.Shape) || hasOne(c.B.Shape)
	case "Dot":
		return (len(c.A.Shape) >= 3 || len(c.B.Shape) >= 3) && (hasOne(c.A.Shape) || hasOne(c.B.Shape))
	}
	return false
}

func avoidC09Regions(c *C09Case) *C09Case {
	if inF43(c) {
		rec.Class("excluded:F43")
		for i, d := range c.A.Shape {
			if d == 1 {
				c.A.Shape[i] = 2
			}
		}
		for i, d := range c.B.Shape {
			if d == 1 {
				c.B.Shape[i] = 2
			}
		}
		// keep the contracted dims equal
		if c.Op == "TensorMul" {
			for i := range c.AxesA {
				c.B.Shape[c.AxesB[i]] = c.A.Shape[c.AxesA[i]]
			}
		} else if len(c.A.Shape) > 0 && len(c.B.Shape) > 0 {
			lb := 0
			if len(c.B.Shape) >= 2 {
				lb = len(c.B.Shape) - 2
			}
			c.B.Shape[lb] = c.A.Shape[len(c.A.Shape)-1]
		}
		c.A.Codes = fillCodes(c.A.Codes, prod(c.A.Shape))
		c.B.Codes = fillCodes(c.B.Codes, prod(c.B.Shape))
	}
	if inF29(c) {
		rec.Class("excluded:F29")
		c.Mode = "safe"
		c.Dst = nil
	}
	if c.Op == "Dot" && (c.Mode == "incr" || c.Mode == "reuse+incr") && prod(c.A.Shape) == 1 && c.B != nil && prod(c.B.Shape) == 1 {
		rec.Class("excluded:F17")
		c.Mode = "reuse"
	}
	return c
}

func fillCodes(codes []int64, n int) []int64 {
	for i := 0; len(codes) < n; i++ {
		codes = append(codes, int64(i%5)-2)
	}
	return codes
}

// inF29: Dot ignores WithIncr (and for two vectors also WithReuse) outside the
// matrix/vector BLAS dispatch.
func inF29(c *C09Case) bool {
	if c.Op != "Dot" || c.Mode == "safe" || c.B == nil || len(c.A.Shape) == 0 || len(c.B.Shape) == 0 {
		return false
	}
	va, vb := isVecShape(c.A.Shape), isVecShape(c.B.Shape)
	if va && vb {
		return true
	}
	blas := (va || len(c.A.Shape) == 2) && (vb || len(c.B.Shape) == 2)
	return !blas && (c.Mode == "incr" || c.Mode == "reuse+incr")
}

var c09Last string

// seqArrConst: n copies of the value v in element type d.
func seqArrConst(d DT, n int, v int64) []interface{} {
	out := make([]interface{}, n)
	for i := range out {
		out[i] = conv(d, v)
	}
	return out
}
