package props

import (
	"encoding/json"
	"fmt"
	"os"
	"testing"

	"gorgonia.org/tensor"
	"pgregory.net/rapid"
)

// C20 — alternative engines and build configurations are observationally equivalent.
//
// The same generated cases (the seed is shared by all configurations) are run
// under every build configuration; each is checked against the model, and a
// digest of (case -> outcome) is written so that the driver can compare the
// configurations pairwise.

type C20FMA struct {
	DT     string `json:"dt"`
	Eng    string `json:"engine"` // "" | f64 | f32
	A      Opnd   `json:"a"`
	X      *Opnd  `json:"x,omitempty"`
	Scalar int64  `json:"scalar,omitempty"`
	Y      Opnd   `json:"y"`
}

func init() { register("C20.fma", func() Case { return &C20FMA{} }) }

func (c *C20FMA) NTKey() string {
	if prod(c.A.Shape) < 2 {
		return ""
	}
	return fmt.Sprintf("%s|%s|%v%v|%s|%v", c.DT, c.Eng, c.A.Shape, c.A.L, opndKey(c.X), c.Y.L)
}

var c20Last string

func (c *C20FMA) Run() string {
	d := dtByName(c.DT)
	A, msg := buildOpnd(&c.A, d)
	if msg != "" {
		return msg
	}
	Y, msg := buildOpnd(&c.Y, d)
	if msg != "" {
		return msg
	}
	withEngine(A.b.T, c.Eng)
	withEngine(Y.b.T, c.Eng)
	var X *opndB
	var x interface{}
	if c.X != nil {
		if X, msg = buildOpnd(c.X, d); msg != "" {
			return msg
		}
		withEngine(X.b.T, c.Eng)
		x = X.b.T
	} else {
		x = decode(d, c.Scalar)
	}
	desc := fmt.Sprintf("FMA(%s eng %q) a=%v%v x=%s y=%v", c.DT, c.Eng, c.A.Shape, c.A.L, opndKey(c.X), c.Y.L)
	var res tensor.Tensor
	var lerr error
	if p := try(func() { res, lerr = tensor.FMA(A.b.T, x, Y.b.T) }); p != "" {
		return desc + " panicked: " + p
	}
	c20Last = "refused"
	if lerr != nil {
		if Y.b.HasGaps() {
			return "" // destinations with gaps are refused (see C07)
		}
		return desc + " refused: " + lerr.Error()
	}
	want := Arr{DT: d, Shape: c.A.Shape, E: make([]interface{}, len(A.arr.E))}
	for k := range want.E {
		xv := x
		if X != nil {
			xv = X.arr.E[k]
		}
		p, _ := binop("Mul", A.arr.E[k], xv)
		want.E[k], _ = binop("Add", Y.arr.E[k], p)
	}
	if rd, ok := res.(*tensor.Dense); !ok || rd != Y.b.T {
		return desc + ": the returned tensor is not y"
	}
	if c.Y.Mask != nil {
		for k, mk := range c.Y.Mask {
			if mk {
				want.E[k] = maskedOut // nothing is stated about positions masked in the destination
			}
		}
	}
	if m := compareAt(res, want, func(a, b interface{}) bool { return isUndef(b) || eqVal(a, b) }); m != "" {
		return desc + ": y = a*x + y: " + m
	}
	if m := A.unchanged("operand a"); m != "" {
		return desc + ": " + m
	}
	if X != nil {
		if m := X.unchanged("operand x"); m != "" {
			return desc + ": " + m
		}
	}
	c20Last = fmtVals(readAll(res))
	// a masked destination: the model says nothing about the positions masked in y, but whatever the
	// default engine does with them, the specialised engine does too
	if c.Y.Mask != nil && c.Eng != "" {
		ref := *c
		ref.Eng = ""
		ref.Y.Mask = nil
		ref.Y.Mask = c.Y.Mask
		A2, m1 := buildOpnd(&ref.A, d)
		Y2, m2 := buildOpnd(&ref.Y, d)
		if m1 == "" && m2 == "" {
			var x2 interface{} = x
			if c.X != nil {
				X2, m3 := buildOpnd(ref.X, d)
				if m3 != "" {
					return ""
				}
				x2 = X2.b.T
			}
			var r2 tensor.Tensor
			var e2 error
			if p := try(func() { r2, e2 = tensor.FMA(A2.b.T, x2, Y2.b.T) }); p == "" && e2 == nil {
				g, w := backingVals(res.Data()), backingVals(r2.Data())
				for k := range g {
					if k < len(w) && !eqVal(g[k], w[k]) {
						return desc + fmt.Sprintf(": masked y: storage element %d is %s with engine %q but %s with the default engine", k, fmtVal(g[k]), c.Eng, fmtVal(w[k]))
					}
				}
				rec.Class("masked-y:compared-with-default-engine")
			}
		}
	}
	return ""
}

// ---------------------------------------------------------------- digest

var digestFile *os.File

func digest(kind string, c Case, msg string, extra string) {
	p := os.Getenv("VERIF_DIGEST_OUT")
	if p == "" {
		return
	}
	if digestFile == nil {
		f, err := os.OpenFile(p, os.O_CREATE|os.O_WRONLY|os.O_APPEND, 0o644)
		if err != nil {
			return
		}
		digestFile = f
	}
	cb, _ := json.Marshal(c)
	outcome := "ok"
	if msg == inconclusive {
		outcome = "inconclusive"
	} else if msg != "" {
		outcome = "fail: " + oneLine(msg)
	}
	rec := map[string]interface{}{"id": hashStr(kind + "|" + string(cb)), "kind": kind, "case": json.RawMessage(cb), "outcome": outcome, "digest": hashStr(outcome + "|" + extra)}
	b, _ := json.Marshal(rec)
	digestFile.Write(append(b, '\n'))
}

// digested wraps a case so that its outcome is written to the digest file.
type digested struct {
	Kind  string `json:"-"`
	Inner Case   `json:"inner"`
}

func (d *digested) NTKey() string {
	if m, ok := d.Inner.(Meta); ok {
		return m.NTKey()
	}
	return ""
}

func (d *digested) MarshalJSON() ([]byte, error) { return json.Marshal(d.Inner) }

func (d *digested) Run() string {
	ewLast, c20Last, c09Last = ewOutcome{}, "", ""
	msg := d.Inner.Run()
	extra := c20Last + c09Last
	if ewLast.Computed {
		extra += fmtVals(ewLast.Result.E)
	}
	if ewLast.Refused {
		extra += "refused"
	}
	digest(d.Kind, d.Inner, msg, extra)
	return msg
}

func c20cell(t *testing.T, kind, name string, n int, draw func(*rapid.T) Case) {
	cell(t, "C20", kind, name, n, func(rt *rapid.T) Case {
		c := draw(rt)
		if c == nil {
			return nil
		}
		return &digested{Kind: kind, Inner: c}
	})
}

func engDT(eng string) DT {
	if eng == "f32" {
		return dtF32
	}
	return dtF64
}

func TestC20(t *testing.T) {
	// ---- transposition, all element widths (the in-place algorithm under -tags inplacetranspose)
	for _, d := range c03DTs {
		d := d
		c20cell(t, "C03.transpose", "transpose/"+d.Name, nCases(60, 1500), func(rt *rapid.T) Case {
			shape := genC03Shape(rt)
			return &C03Case{DT: d.Name, Shape: shape, L: Layout{Root: "rm"}, Prog: genC03Prog(rt, shape, rapid.IntRange(1, 4).Draw(rt, "len"), ""), Base: rapid.Int64Range(0, 20).Draw(rt, "base")}
		})
	}
	for rank := 2; rank <= 4; rank++ {
		rank := rank
		c20cell(t, "C03.allperms", fmt.Sprintf("allperms/rank%d", rank), nCases(4, 30), func(rt *rapid.T) Case {
			shape := make([]int, rank)
			for i := range shape {
				shape[i] = rapid.IntRange(1, 3).Draw(rt, "dim")
			}
			return &C03AllPerms{DT: rapid.SampledFrom([]string{"int8", "int16", "float32", "float64", "complex128", "string"}).Draw(rt, "dt"), Shape: shape, Op: "T+Transpose", L: Layout{Root: "rm"}}
		})
	}
	c20cell(t, "C03.allperms", "allperms/sides-to-9", nCases(10, 150), func(rt *rapid.T) Case {
		shape := []int{rapid.IntRange(2, 9).Draw(rt, "m"), rapid.IntRange(2, 9).Draw(rt, "n")}
		if rapid.IntRange(0, 3).Draw(rt, "r3") == 0 {
			shape = append(shape, rapid.IntRange(2, 5).Draw(rt, "k"))
		}
		return &C03AllPerms{DT: rapid.SampledFrom([]string{"int8", "int16", "float32", "float64", "complex128", "string", "rec24"}).Draw(rt, "dt"), Shape: shape, Op: rapid.SampledFrom([]string{"pkgTranspose", "T+Transpose"}).Draw(rt, "op"), L: Layout{Root: "rm"}}
	})
	c20cell(t, "C03.allperms", "allperms/word-boundaries", nCases(6, 80), func(rt *rapid.T) Case {
		return genWordBoundaryTranspose(rt, rapid.SampledFrom([]string{"pkgTranspose", "T+Transpose"}).Draw(rt, "op"))
	})
	// ---- arithmetic with every option mode under each engine
	for _, eng := range []string{"", "f64", "f32"} {
		for _, op := range []string{"Add", "Sub", "Mul", "Div"} {
			for _, mode := range ewModes {
				eng, op, mode := eng, op, mode
				c20cell(t, "EW", fmt.Sprintf("arith/%s/%s/eng=%s", op, mode, eng), nCases(25, 600), func(rt *rapid.T) Case {
					d := engDT(eng)
					if eng == "" {
						d = rapid.SampledFrom([]DT{dtF32, dtF64, dtInt32, dtUint8}).Draw(rt, "dt")
					}
					form := rapid.SampledFrom([]string{"TT", "TS", "ST"}).Draw(rt, "form")
					c := genArithCase(rt, "C20", op, d, form, rapid.SampledFrom([]string{"pkg", "method"}).Draw(rt, "via"), "safe", c06LayoutKinds)
					c = withMode(rt, c, mode, d)
					c.Engine = eng
					// UseUnsafe() next to WithReuse: the reuse tensor stays the destination under every engine
					c.AlsoUnsafe = c.Mode == "reuse" && rapid.IntRange(0, 2).Draw(rt, "alsounsafe") == 0
					// the same vector in another form as the destination: whatever form the result keeps, the engines agree
					if c.Dst != nil && nonUnit(c.A.Shape) == 1 && eqInts(c.Dst.Shape, c.A.Shape) && rapid.IntRange(0, 2).Draw(rt, "vecform") == 0 {
						n := prod(c.A.Shape)
						alt := rapid.SampledFrom([][]int{{n}, {n, 1}, {1, n}}).Draw(rt, "form")
						if !eqInts(alt, c.A.Shape) {
							c.Dst.Shape, c.Dst.L = alt, Layout{Root: "rm"}
						}
					}
					return c
				})
			}
			// what the standard engine refuses, the specialised engines refuse: operands of different shapes,
			// also those with as many elements (the flat kernels would run happily over them)
			if eng != "" {
				eng, op := eng, op
				c20cell(t, "EW", fmt.Sprintf("arith/%s/mismatch-shape/eng=%s", op, eng), nCases(10, 200), func(rt *rapid.T) Case {
					d := engDT(eng)
					c := genArithCase(rt, "C20", op, d, "TT", rapid.SampledFrom([]string{"pkg", "method"}).Draw(rt, "via"), "safe", c06LayoutKinds)
					c = withMode(rt, c, rapid.SampledFrom([]string{"safe", "unsafe", "reuse", "incr"}).Draw(rt, "mode"), d)
					shape := mismatchedShape(rt, c.A.Shape)
					if len(c.A.Shape) >= 2 && rapid.IntRange(0, 2).Draw(rt, "samesize") > 0 {
						rev := make([]int, len(c.A.Shape))
						for i, dd := range c.A.Shape {
							rev[len(rev)-1-i] = dd
						}
						if !tensor.Shape(rev).Eq(tensor.Shape(c.A.Shape)) {
							shape = rev
						}
					}
					b := genOpnd(rt, shape, "contig", -3, 9, 0, "b2")
					c.B = &b
					c.Engine = eng
					return c
				})
			}
			// column-major operands and destinations, alone and mixed with row-major ones
			if eng != "" {
				for _, mode := range []string{"safe", "unsafe", "reuse", "incr"} {
					eng, op, mode := eng, op, mode
					c20cell(t, "EW", fmt.Sprintf("arith-cm/%s/%s/eng=%s", op, mode, eng), nCases(15, 400), func(rt *rapid.T) Case {
						d := engDT(eng)
						form := rapid.SampledFrom([]string{"TT", "TT", "TS", "ST"}).Draw(rt, "form")
						c := genArithCase(rt, "C20", op, d, form, rapid.SampledFrom([]string{"pkg", "method"}).Draw(rt, "via"), "safe", c06LayoutKinds)
						c = withMode(rt, c, mode, d)
						sameShapeDst(c)
						n := 1
						if c.B != nil {
							n++
						}
						ls := c16Layouts(rt, n)
						relayout(rt, &c.A, ls[0], "ra")
						if c.B != nil {
							relayout(rt, c.B, ls[1], "rb")
						}
						if c.Dst != nil {
							relayout(rt, c.Dst, rapid.SampledFrom([]string{"cmraw", "contig"}).Draw(rt, "dk"), "rd")
						}
						avoidF39(c)
						c.Engine = eng
						return avoidC16EW(c)
					})
				}
			}
			// every value awkward at once (extremes, a huge and a tiny magnitude next to each other): the order
			// and the precision in which an increment is accumulated show in the result
			eng, op := eng, op
			c20cell(t, "EW", fmt.Sprintf("arith/%s/incr-awkward/eng=%s", op, eng), nCases(25, 600), func(rt *rapid.T) Case {
				d := engDT(eng)
				if eng == "" {
					d = rapid.SampledFrom(floatDTs).Draw(rt, "dt")
				}
				form := rapid.SampledFrom([]string{"TT", "TS", "ST"}).Draw(rt, "form")
				c := genArithCase(rt, "C20", op, d, form, "pkg", "safe", []string{"contig", "contig", "lazyT", "sliced"})
				c = withMode(rt, c, "incr", d)
				c.Engine = eng
				awk := []int64{1004, 1005, 1007, 1008, 1010, 1, -1, 3, 1004, 1005}
				redraw := func(codes []int64, label string) {
					for i := range codes {
						codes[i] = rapid.SampledFrom(awk).Draw(rt, label)
					}
				}
				redraw(c.A.Codes, "aa")
				if c.B != nil {
					redraw(c.B.Codes, "ab")
				} else {
					c.Scalar = rapid.SampledFrom(awk).Draw(rt, "as")
				}
				if c.Dst != nil {
					redraw(c.Dst.Codes, "ad")
				}
				avoidF39(c)
				return c
			})
		}
		eng := eng
		c20cell(t, "C20.fma", "fma/eng="+eng, nCases(150, 4000), func(rt *rapid.T) Case {
			d := engDT(eng)
			if eng == "" {
				d = rapid.SampledFrom([]DT{dtF32, dtF64, dtInt32}).Draw(rt, "dt")
			}
			shape := ewShape(rt)
			c := &C20FMA{DT: d.Name, Eng: eng}
			// column-major operands take part too (each independently), and awkward values (non-finite, extremes)
			la := append(append([]string{}, c06LayoutKinds...), "cmraw", "cmraw")
			c.A = genOpnd(rt, shape, rapid.SampledFrom(la).Draw(rt, "la"), -4, 6, 12, "a")
			c.Y = genOpnd(rt, shape, rapid.SampledFrom([]string{"contig", "leadsliced", "lazyT", "sliced", "physT", "stepsliced", "cmraw"}).Draw(rt, "ly"), -4, 6, 12, "y")
			if rapid.Bool().Draw(rt, "tensorx") {
				x := genOpnd(rt, shape, rapid.SampledFrom(la).Draw(rt, "lx"), -4, 6, 12, "x")
				c.X = &x
			} else {
				c.Scalar = rapid.Int64Range(-3, 4).Draw(rt, "s")
			}
			if rapid.IntRange(0, 4).Draw(rt, "ymask") == 0 {
				// a masked destination that is otherwise flat
				c.Y.L = Layout{Root: "rm"}
				c.Y.Mask = make([]bool, prod(shape))
				for i := range c.Y.Mask {
					c.Y.Mask[i] = rapid.Bool().Draw(rt, "ym")
				}
			}
			return c
		})
		// ---- reductions of tensors that carry the engine
		if eng != "" {
			for _, op := range []string{"Sum", "Max", "Min", "Argmax"} {
				op := op
				c20cell(t, "C08.reduce", fmt.Sprintf("reduce/%s/eng=%s", op, eng), nCases(30, 800), func(rt *rapid.T) Case {
					d := engDT(eng)
					shape := genShapeMin2(rt, 1, 4, 4, "s")
					c := &C08Case{Op: op, DT: d.Name, Via: rapid.SampledFrom([]string{"pkg", "method"}).Draw(rt, "via"), Eng: eng}
					c.A = genOpnd(rt, shape, rapid.SampledFrom(c08Layouts).Draw(rt, "lk"), -4, 8, 0, "a")
					if op == "Argmax" {
						c.Axes = []int{rapid.IntRange(-1, len(shape)-1).Draw(rt, "axis")}
					} else if rapid.IntRange(0, 2).Draw(rt, "all") == 0 {
						c.Axes = nil
					} else {
						c.Axes = genAxesSubset(rt, len(shape))
					}
					return c
				})
			}
		}
		// ---- products incl. the engines' own Inner
		for _, op := range []string{"Inner", "MatVecMul", "MatMul", "Outer", "Dot"} {
			op := op
			c20cell(t, "C09.linalg", fmt.Sprintf("linalg/%s/eng=%s", op, eng), nCases(40, 1000), func(rt *rapid.T) Case {
				d := engDT(eng)
				if eng == "" {
					d = rapid.SampledFrom(floatDTs).Draw(rt, "dt")
				}
				mode := rapid.SampledFrom([]string{"safe", "reuse", "incr"}).Draw(rt, "mode")
				if op == "Inner" {
					mode = "safe"
				}
				c := avoidC09Regions(genC09(rt, op, d, mode, c09Layouts))
				c.Eng = eng
				return c
			})
		}
	}
	c20ProdCells(t)
	// ---- index arithmetic (Itol / TransposeIndex / divmod): coordinates and iteration
	c20cell(t, "C01.addr", "index/addr", nCases(150, 3000), func(rt *rapid.T) Case {
		shape := genC01Shape(rt)
		if prod(shape)*9 > 4000 {
			shape = shape[:len(shape)-1]
		}
		d := rapid.SampledFrom([]DT{dtInt16, dtF64, dtStr}).Draw(rt, "dt")
		return &C01Case{DT: d.Name, Shape: shape, L: genLayoutKind(rt, rapid.SampledFrom(c01Layouts).Draw(rt, "lk"), len(shape), "l"), Base: rapid.Int64Range(0, 40).Draw(rt, "base")}
	})
	c20cell(t, "C05.flat", "index/iterate", nCases(300, 6000), func(rt *rapid.T) Case {
		shape := genC05Shape(rt)
		return &C05Case{Shape: shape, L: genLayoutKind(rt, rapid.SampledFrom(c05Layouts).Draw(rt, "lk"), len(shape), "l"), Via: rapid.SampledFrom([]string{"flat", "iterator"}).Draw(rt, "via"), Walk: rapid.SampledFrom([]string{"forward", "reverse", "reset", "switch"}).Draw(rt, "walk"), K: rapid.IntRange(0, prod(shape)).Draw(rt, "k")}
	})
	c20cell(t, "C20.index", "index/functions", nCases(300, 6000), func(rt *rapid.T) Case {
		shape := genShape(rt, 1, 4, 5, "s")
		return &C20Index{Shape: shape, Perm: genPerm(rt, len(shape), "perm")}
	})
}

// C20Index exercises the exported index helpers (the only users of divmod): Itol/Ltoi
// round trip and TransposeIndex/UntransposeIndex against the model.
type C20Index struct {
	Shape []int `json:"shape"`
	Perm  []int `json:"perm"`
}

func init() { register("C20.index", func() Case { return &C20Index{} }) }

func (c *C20Index) NTKey() string {
	if nonUnit(c.Shape) < 2 {
		return ""
	}
	return fmt.Sprintf("%v|%v", c.Shape, c.Perm)
}

func (c *C20Index) Run() string {
	shape := tensor.Shape(cloneInts(c.Shape))
	strides := shape.CalcStrides()
	coords := coordsOf(c.Shape)
	tshape := make([]int, len(c.Perm))
	for i, ax := range c.Perm {
		tshape[i] = c.Shape[ax]
	}
	tstrides := tensor.Shape(tshape).CalcStrides()
	out := ""
	for k, cc := range coords {
		i, err := tensor.Ltoi(shape, strides, cc...)
		if err != nil || i != k {
			return fmt.Sprintf("Ltoi(%v, %v) = %d, %v; expected %d", c.Shape, cc, i, err, k)
		}
		back, err := tensor.Itol(k, shape, strides)
		if err != nil || !eqInts(back, cc) {
			return fmt.Sprintf("Itol(%d, %v) = %v, %v; expected %v", k, c.Shape, back, err, cc)
		}
		// the index of this element in the row-major layout of the transposed array
		tc := make([]int, len(cc))
		for i2, ax := range c.Perm {
			tc[i2] = cc[ax]
		}
		wantT := flatIdx(tshape, tc)
		if len(c.Shape) >= 2 && !isIdentity(c.Perm) {
			gotT := tensor.TransposeIndex(k, c.Shape, c.Perm, strides, tstrides)
			if gotT != wantT {
				return fmt.Sprintf("TransposeIndex(%d, shape %v, perm %v) = %d, expected %d", k, c.Shape, c.Perm, gotT, wantT)
			}
		}
		out += fmt.Sprint(i, wantT, ";")
	}
	c20Last = out
	return ""
}
