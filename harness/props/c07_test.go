package props

import (
	"gorgonia.org/tensor"
	"testing"

	"pgregory.net/rapid"
)

// C07 — operation options: safe is pure, unsafe/reuse/incr write only their destination.
// C11 — elementwise comparisons.  C12 — unary maths (Apply is in c12apply_test.go).

var dstLayoutKinds = []string{"contig", "leadsliced", "leadsliced", "sliced", "stepsliced", "lazyT"}

func genDst(rt *rapid.T, shape []int, d DT, label string) *Opnd {
	lo, hi := valueRange(d)
	// (an increment destination holds awkward values now and then: the accumulation order and precision show there)
	o := genOpnd(rt, shape, rapid.SampledFrom(dstLayoutKinds).Draw(rt, label+"k"), lo, hi, 12, label)
	return &o
}

func genCmpCase(rt *rapid.T, prop, op string, d DT, form, via, mode string, same bool, layouts []string) *EWCase {
	shape := ewShape(rt)
	c := &EWCase{Prop: prop, Fam: "cmp", Op: op, DT: d.Name, Form: form, Via: via, Mode: mode, SameType: same}
	c.A = genOpnd(rt, shape, rapid.SampledFrom(layouts).Draw(rt, "la"), -2, 3, 12, "a")
	if form == "TT" {
		b := genOpnd(rt, shape, rapid.SampledFrom(layouts).Draw(rt, "lb"), -2, 3, 12, "b")
		c.B = &b
		if rapid.IntRange(0, 9).Draw(rt, "bsame") == 0 {
			// the same tensor on both sides (x == x is false exactly for NaN)
			same := c.A
			c.B, c.BSame = &same, true
		}
	} else {
		c.Scalar = genCodes(rt, 1, -2, 3, 12, "s")[0]
		c.ScT = via == "pkg" && rapid.IntRange(0, 3).Draw(rt, "sct") == 0
	}
	if mode == "reuse" {
		dd := dtBool
		if same {
			dd = d
		}
		c.Dst = genDst(rt, shape, dd, "dst")
	}
	c.SafeOpt = c.Mode == "safe" && rapid.IntRange(0, 5).Draw(rt, "safeopt") == 0
	return c
}

func genUnaryCase(rt *rapid.T, prop, op string, d DT, mode string, layouts []string) *EWCase {
	cplxCodes = d.IsComplex()
	defer func() { cplxCodes = false }()
	shape := ewShape(rt)
	lo, hi := valueRange(d)
	c := &EWCase{Prop: prop, Fam: "unary", Op: op, DT: d.Name, Form: "T", Via: "pkg", Mode: mode}
	c.A = genOpnd(rt, shape, rapid.SampledFrom(layouts).Draw(rt, "la"), lo, hi, 15, "a")
	// (not float32 Exp: the 32-bit routine's argument reduction loses some 30 ulps at |x| = 80, which says
	// nothing about the tensor library)
	if d.IsFloat() && !(op == "Exp" && d.Name == "float32") && rapid.IntRange(0, 3).Draw(rt, "moderate") == 0 {
		// magnitudes between the small integers and the extremes (saturation and overflow thresholds)
		for i := range c.A.Codes {
			if rapid.IntRange(0, 2).Draw(rt, "modv") == 0 {
				c.A.Codes[i] = 4000 + int64(rapid.IntRange(0, len(moderate)-1).Draw(rt, "modk"))
			}
		}
	}
	if op == "Clamp" {
		c.Lo = rapid.Int64Range(lo, 2).Draw(rt, "clo")
		c.Hi = rapid.Int64Range(c.Lo, hi).Draw(rt, "chi")
		if d.IsUnsigned() && c.Lo < 0 {
			c.Lo = 0
			if c.Hi < 0 {
				c.Hi = 5
			}
		}
	}
	if mode == "reuse" || mode == "incr" {
		c.Dst = genDst(rt, shape, d, "dst")
	}
	c.SafeOpt = c.Mode == "safe" && rapid.IntRange(0, 5).Draw(rt, "safeopt") == 0
	return c
}

func withMode(rt *rapid.T, c *EWCase, mode string, d DT) *EWCase {
	c.Mode = mode
	switch mode {
	case "reuse", "incr":
		c.Dst = genDst(rt, c.A.Shape, d, "dst")
		if n := prod(c.A.Shape); n >= 2 && len(c.A.Shape) >= 1 && rapid.IntRange(0, 5).Draw(rt, "reshapedst") == 0 {
			// a destination of another shape with as many elements (the library reshapes it), possibly with a
			// lazy transposition pending: its elements count in their logical row-major order
			alt := []int{n}
			if len(c.A.Shape) >= 2 && rapid.Bool().Draw(rt, "altrev") {
				alt = make([]int, len(c.A.Shape))
				for i, dd := range c.A.Shape {
					alt[len(alt)-1-i] = dd
				}
			} else if len(c.A.Shape) == 1 && n%2 == 0 {
				alt = []int{2, n / 2}
			}
			if !eqInts(alt, c.A.Shape) && !tensor.Shape(alt).Eq(tensor.Shape(c.A.Shape)) { // (n) ~ (n,1) ~ (1,n) are "equal" shapes to the library
				c.Dst.Shape = alt
				c.Dst.L = Layout{Root: "rm"}
				if len(alt) >= 2 && rapid.Bool().Draw(rt, "altT") {
					c.Dst.L.Steps = []LStep{{Op: "T", Perm: revPerm(len(alt))}}
				}
			}
		}
	case "reuseB":
		if c.B == nil {
			c.Mode = "reuseA"
		}
	case "reuseBv":
		if c.B == nil {
			c.Mode = "reuseAv"
		}
	}
	if c.Mode == "reuseAx" {
		n := prod(c.A.Shape)
		if n > 4 {
			n = 4
		}
		if n < 2 || len(c.A.Codes) < n || (c.B != nil && len(c.B.Codes) < n) {
			c.Mode = "reuseA"
		} else {
			c.A = Opnd{Shape: []int{n}, Codes: c.A.Codes[:n], L: Layout{Root: "rm", Steps: []LStep{{Op: "pick", Axis: 1, Size: n, Idx: 0}}}}
			if c.B != nil {
				bl := Layout{Root: "rm"}
				if rapid.Bool().Draw(rt, "bstep") {
					bl.Steps = []LStep{{Op: "slice", Lo: []int{0}, Hi: []int{rapid.IntRange(0, 1).Draw(rt, "bhi")}, Step: []int{2}}}
				}
				c.B = &Opnd{Shape: []int{n}, Codes: c.B.Codes[:n], L: bl}
			}
		}
	}
	// a whole-tensor view of an operand with gaps in its storage cannot be a reuse tensor: use compact operands
	switch c.Mode {
	case "reuseAv":
		if !(c.A.L.IsContig()) {
			c.A.L = Layout{Root: "rm"}
		}
	case "reuseBv":
		if c.B != nil && !(c.B.L.IsContig()) {
			c.B.L = Layout{Root: "rm"}
		}
	}
	if inF25(c) {
		rec.Class("excluded:F25")
		if c.Mode == "unsafe" || c.Mode == "incr" {
			c.Mode = "reuse"
			c.Dst = genDst(rt, c.A.Shape, d, "dst2")
		}
		if c.Form == "ST" {
			c.A.L = Layout{Root: "rm"}
		}
	}
	if k := rapid.IntRange(0, 11).Draw(rt, "pre"); k < 3 {
		c.Pre = []string{"reuse-dtype", "incr-dtype", "reuse-size"}[k]
	}
	if c.Mode == "reuseAx" && !(len(c.A.L.Steps) == 1 && c.A.L.Steps[0].Op == "pick" && c.A.L.Final == "") {
		c.Mode = "reuseA"
	}
	return c
}

var ewModes = []string{"safe", "unsafe", "reuse", "reuseA", "reuseB", "reuseAv", "reuseBv", "reuseAx", "incr"}

// (the quick tier used to draw from seven element types; a kernel of one of the other seven was then out of
// its reach - every generated kernel exists once per type, so both tiers run all fourteen)
func c07DTs() []DT { return numDTs }

func TestC07(t *testing.T) {
	for _, op := range arithOps {
		for _, d := range c07DTs() {
			if !opSupports("arith", op, d) {
				continue
			}
			for _, mode := range ewModes {
				op, d, mode := op, d, mode
				cell(t, "C07", "EW", "arith/"+op+"/"+d.Name+"/"+mode, nCases(25, 400), func(rt *rapid.T) Case {
					form := rapid.SampledFrom([]string{"TT", "TS", "ST"}).Draw(rt, "form")
					via := rapid.SampledFrom([]string{"pkg", "method"}).Draw(rt, "via")
					if op == "MinBetween" || op == "MaxBetween" {
						via = "pkg"
					}
					c := genArithCase(rt, "C07", op, d, form, via, "safe", c06LayoutKinds)
					return withMode(rt, c, mode, d)
				})
			}
		}
	}
	// long vectors: the vector kernels (assembly for the float types) work in blocks and finish with a tail
	for _, op := range []string{"Add", "Sub", "Mul", "Div"} {
		for _, d := range []DT{dtF32, dtF64, dtInt32, dtInt8, dtUint64, dtC64} {
			for _, mode := range []string{"safe", "unsafe", "reuse", "incr"} {
				op, d, mode := op, d, mode
				cell(t, "C07", "EW", "long/"+op+"/"+d.Name+"/"+mode, nCases(3, 40), func(rt *rapid.T) Case {
					n := rapid.SampledFrom([]int{5, 7, 8, 9, 15, 16, 17, 31, 33, 63, 65, 100, 127, 129, 255, 257, 1000, 1027}).Draw(rt, "n")
					shape := rapid.SampledFrom([][]int{{n}, {n}, {2, n}, {n, 1}}).Draw(rt, "shape")
					form := rapid.SampledFrom([]string{"TT", "TS", "ST"}).Draw(rt, "form")
					c := genArithCase(rt, "C07", op, d, form, rapid.SampledFrom([]string{"pkg", "method"}).Draw(rt, "via"), "safe", []string{"contig"})
					lo, hi := valueRange(d)
					c.A = genOpnd(rt, shape, "contig", lo, hi, 3, "la")
					if c.B != nil {
						b := genOpnd(rt, shape, "contig", lo, hi, 3, "lb")
						c.B = &b
						if c.BSame {
							same := c.A
							c.B = &same
						}
					}
					avoidF39(c)
					c = withMode(rt, c, mode, d)
					if c.Dst != nil {
						c.Dst.L = Layout{Root: "rm"}
					}
					return c
				})
			}
		}
	}
	// one-element tensors (shapes (1), (1,1), (1,1,1)): the kernels treat them specially
	for _, op := range arithOps {
		for _, d := range []DT{dtInt32, dtF64, dtUint8, dtF32, dtC128, dtInt64} {
			if !opSupports("arith", op, d) {
				continue
			}
			for _, mode := range ewModes {
				op, d, mode := op, d, mode
				cell(t, "C07", "EW", "one-element/"+op+"/"+d.Name+"/"+mode, nCases(6, 60), func(rt *rapid.T) Case {
					form := rapid.SampledFrom([]string{"TT", "TS", "ST"}).Draw(rt, "form")
					via := rapid.SampledFrom([]string{"pkg", "method"}).Draw(rt, "via")
					if op == "MinBetween" || op == "MaxBetween" {
						via = "pkg"
					}
					shape := cloneInts(rapid.SampledFrom([][]int{{1}, {1, 1}, {1, 1, 1}, {}}).Draw(rt, "shape"))
					c := &EWCase{Prop: "C07", Fam: "arith", Op: op, DT: d.Name, Form: form, Via: via, Mode: "safe"}
					c.A = genOpnd(rt, shape, "contig", 1, 9, 0, "a")
					if form == "TT" {
						b := genOpnd(rt, shape, "contig", 1, 9, 0, "b")
						c.B = &b
					} else {
						c.Scalar = rapid.Int64Range(1, 9).Draw(rt, "s")
					}
					c = withMode(rt, c, mode, d)
					if c.Dst != nil {
						c.Dst.L = Layout{Root: "rm"}
					}
					if inF73(c) {
						rec.Class("excluded:F73")
						c.Mode = "reuseA"
					}
					if inF17(c) {
						// known finding F17 (operand a is clobbered): the delivered values are still checked,
						// the "operand a unchanged" assertion is dropped inside the region (see EWCase.Run)
						rec.Class("excluded:F17(operand-unchanged assertion only)")
					}
					return c
				})
			}
		}
	}
	oneElementCmpCells(t, "C07")
	for _, op := range cmpOps {
		for _, d := range c07DTs() {
			if !opSupports("cmp", op, d) {
				continue
			}
			for _, mode := range []string{"safe", "safe-same", "unsafe", "reuse", "reuse-same", "reuseA", "reuseB", "reuseAv", "reuseBv"} {
				op, d, mode := op, d, mode
				cell(t, "C07", "EW", "cmp/"+op+"/"+d.Name+"/"+mode, nCases(20, 300), func(rt *rapid.T) Case {
					form := rapid.SampledFrom([]string{"TT", "TS", "ST"}).Draw(rt, "form")
					via := rapid.SampledFrom([]string{"pkg", "method"}).Draw(rt, "via")
					return genCmpMode(rt, "C07", op, d, form, via, mode)
				})
			}
		}
	}
	// the operand as its own increment tensor (exact functions only)
	for _, op := range []string{"Neg", "Square", "Abs", "Sign", "Cube"} {
		for _, d := range []DT{dtInt32, dtF64, dtF32, dtInt8} {
			op, d := op, d
			if !opSupports("unary", op, d) {
				continue
			}
			cell(t, "C07", "EW", "unary/"+op+"/"+d.Name+"/incrA", nCases(10, 150), func(rt *rapid.T) Case {
				c := genUnaryCase(rt, "C07", op, d, "incrA", []string{"contig", "contig", "leadsliced", "lazyT"})
				return c
			})
		}
	}
	for _, op := range unaryOps {
		for _, d := range c07DTs() {
			if !opSupports("unary", op, d) {
				continue
			}
			for _, mode := range []string{"safe", "unsafe", "reuse", "reuseA", "incr"} {
				op, d, mode := op, d, mode
				cell(t, "C07", "EW", "unary/"+op+"/"+d.Name+"/"+mode, nCases(20, 300), func(rt *rapid.T) Case {
					return genUnaryCase(rt, "C07", op, d, mode, c06LayoutKinds)
				})
			}
		}
	}
}

func genCmpMode(rt *rapid.T, prop, op string, d DT, form, via, mode string) *EWCase {
	same := false
	if mode == "reuse-alias" {
		// the reuse tensor is an operand, or another tensor over an operand's memory
		mode = rapid.SampledFrom([]string{"reuseA", "reuseB", "reuseAv", "reuseBv"}).Draw(rt, "alias")
	}
	m := mode
	switch mode {
	case "safe-same":
		m, same = "safe", true
	case "reuse-same":
		m, same = "reuse", true
	case "unsafe", "reuseA", "reuseB", "reuseAv", "reuseBv":
		same = true
	}
	c := genCmpCase(rt, prop, op, d, form, via, m, same, c06LayoutKinds)
	if m == "reuseB" && c.B == nil {
		c.Mode = "reuseA"
	}
	if m == "reuseBv" && c.B == nil {
		c.Mode = "reuseAv"
	}
	// a whole-tensor view of an operand with gaps in its storage cannot be a reuse tensor: use compact operands
	if c.Mode == "reuseAv" && !c.A.L.IsContig() {
		c.A.L = Layout{Root: "rm"}
	}
	if c.Mode == "reuseBv" && !c.B.L.IsContig() {
		c.B.L = Layout{Root: "rm"}
	}
	if inF26(c) {
		rec.Class("excluded:F26")
		c.A.L = Layout{Root: "rm"}
	}
	return c
}

// inF26 is the region of known finding F26: scalar on the left, same-type
// result and a non-contiguous tensor operand.
func inF26(c *EWCase) bool {
	return c.Fam == "cmp" && c.Form == "ST" && (c.SameType || c.Mode == "unsafe" || c.Mode == "reuseA") && !c.A.L.IsContig() && !c.A.L.onlyTransposed()
}

func TestC11(t *testing.T) {
	cmpDTs := append(append([]DT{}, ordNumDTs...), dtStr, dtC64, dtC128, dtBool, dtUintptr)
	for _, op := range cmpOps {
		for _, d := range cmpDTs {
			if !opSupports("cmp", op, d) {
				continue
			}
			if d.Name == "uintptr" && op != "ElEq" && op != "ElNe" {
				continue // comparable, not a member of the library's Ord class
			}
			for _, form := range []string{"TT", "TS", "ST"} {
				for _, mode := range []string{"safe", "safe-same", "unsafe", "reuse", "reuse-same", "reuse-alias"} {
					if !d.IsNum() && mode != "safe" && mode != "reuse" {
						continue // 1/0 of the operand type only exists for numeric types
					}
					op, d, form, mode := op, d, form, mode
					cell(t, "C11", "EW", op+"/"+d.Name+"/"+form+"/"+mode, nCases(12, 300), func(rt *rapid.T) Case {
						via := rapid.SampledFrom([]string{"pkg", "method"}).Draw(rt, "via")
						return genCmpMode(rt, "C11", op, d, form, via, mode)
					})
				}
			}
		}
	}
	oneElementCmpCells(t, "C11")
	// refusals: unordered element types for the order comparisons, mismatched element types and shapes
	for _, op := range cmpOps {
		op := op
		for _, d := range []DT{dtC64, dtC128, dtBool} {
			d := d
			if opSupports("cmp", op, d) {
				continue
			}
			cell(t, "C11", "EW", op+"/unordered/"+d.Name, nCases(4, 40), func(rt *rapid.T) Case {
				form := rapid.SampledFrom([]string{"TT", "TS", "ST"}).Draw(rt, "form")
				return genCmpCase(rt, "C11", op, d, form, "pkg", "safe", false, []string{"contig", "sliced"})
			})
		}
		cell(t, "C11", "EW", op+"/mismatch-dtype", nCases(6, 60), func(rt *rapid.T) Case {
			d := rapid.SampledFrom(ordNumDTs).Draw(rt, "dt")
			form := rapid.SampledFrom([]string{"TT", "TS", "ST"}).Draw(rt, "form")
			c := genCmpCase(rt, "C11", op, d, form, "pkg", "safe", false, c06LayoutKinds)
			od := rapid.SampledFrom(ordNumDTs).Draw(rt, "odt")
			if od.Name == d.Name {
				od = ordNumDTs[(indexOfDT(d)+1)%len(ordNumDTs)]
			}
			c.BDT = od.Name
			return c
		})
		cell(t, "C11", "EW", op+"/mismatch-shape", nCases(20, 400), func(rt *rapid.T) Case {
			d := rapid.SampledFrom(ordNumDTs).Draw(rt, "dt")
			c := genCmpCase(rt, "C11", op, d, "TT", rapid.SampledFrom([]string{"pkg", "method"}).Draw(rt, "via"), "safe", false, c06LayoutKinds)
			shape := mismatchedShape(rt, c.A.Shape)
			b := genOpnd(rt, shape, "contig", -2, 3, 0, "b2")
			c.B = &b
			return c
		})
	}
}

func TestC12(t *testing.T) {
	for _, op := range unaryOps {
		for _, d := range allDTs {
			for _, mode := range []string{"safe", "unsafe", "reuse", "incr"} {
				op, d, mode := op, d, mode
				if !opSupports("unary", op, d) && mode != "safe" {
					continue
				}
				if d.Name == "unsafe.Pointer" {
					continue
				}
				cell(t, "C12", "EW", op+"/"+d.Name+"/"+mode, nCases(12, 300), func(rt *rapid.T) Case {
					return genUnaryCase(rt, "C12", op, d, mode, c06LayoutKinds)
				})
			}
		}
	}
	// large operands (a few thousand elements, around the powers of two): whatever switches strategy by size
	for _, op := range []string{"Neg", "Square", "Abs", "Sqrt"} {
		for _, mode := range []string{"safe", "unsafe", "reuse", "incr"} {
			op, mode := op, mode
			cell(t, "C12", "EW", "large/"+op+"/"+mode, nCases(1, 12), func(rt *rapid.T) Case {
				d := rapid.SampledFrom([]DT{dtF64, dtInt32, dtF32}).Draw(rt, "dt")
				if !opSupports("unary", op, d) {
					d = dtF64
				}
				c := genUnaryCase(rt, "C12", op, d, mode, []string{"contig"})
				shape := rapid.SampledFrom([][]int{{70, 60}, {64, 64}, {65, 63}, {4097}, {2, 2049}, {16, 16, 17}, {1025, 4}}).Draw(rt, "bigshape")
				lk := rapid.SampledFrom([]string{"contig", "lazyT", "lazyT", "sliced", "physT"}).Draw(rt, "lk")
				c.A = genOpnd(rt, shape, lk, 0, 9, 0, "big")
				if c.Dst != nil {
					c.Dst = genDst(rt, shape, d, "bigdst")
					c.Dst.L = Layout{Root: "rm"}
					for i := range c.Dst.Codes {
						c.Dst.Codes[i] = int64(i % 7)
					}
				}
				return c
			})
		}
	}
	c12ApplyCells(t)
}

// inF17 is the region of known finding F17: one-element operands.
// inF73 is the region of known finding F73: both operands are rank-0 tensors and the reuse tensor is (or
// is a view of) the second one: the package functions dispatch the second operand as the scalar, copy the
// first operand into the reuse tensor - which IS that scalar - and compute a op a.
func inF73(c *EWCase) bool {
	return c.Form == "TT" && len(c.A.Shape) == 0 && (c.Mode == "reuseB" || c.Mode == "reuseBv")
}

func inF17(c *EWCase) bool { return c.Mode == "incr" && prod(c.A.Shape) == 1 }

// inF54: a comparison with the scalar on the left, done in place (UseUnsafe) on a one-element tensor.
func inF54(c *EWCase) bool {
	return c.Fam == "cmp" && c.Form == "ST" && c.Mode == "unsafe" && prod(c.A.Shape) == 1
}

// oneElementCmpCells: comparisons on tensors with exactly one element (shapes (1), (1,1), (1,1,1)),
// which the engine routes through special cases; values from {0,1,2} so that equal pairs are frequent.
func oneElementCmpCells(t *testing.T, prop string) {
	for _, op := range cmpOps {
		for _, mode := range []string{"safe", "safe-same", "unsafe", "reuse", "reuse-same"} {
			op, mode := op, mode
			cell(t, prop, "EW", "one-element/"+op+"/"+mode, nCases(30, 400), func(rt *rapid.T) Case {
				d := rapid.SampledFrom(ordNumDTs).Draw(rt, "dt") // (every type has its own one-element branch)
				form := rapid.SampledFrom([]string{"TT", "TS", "ST"}).Draw(rt, "form")
				c := genCmpMode(rt, prop, op, d, form, rapid.SampledFrom([]string{"pkg", "method"}).Draw(rt, "via"), mode)
				shape := cloneInts(rapid.SampledFrom([][]int{{1}, {1, 1}, {1, 1, 1}, {}}).Draw(rt, "shape"))
				c.A = genOpnd(rt, shape, "contig", 0, 2, 0, "a1")
				if c.B != nil {
					b := genOpnd(rt, shape, "contig", 0, 2, 0, "b1")
					c.B = &b
				} else {
					c.Scalar = rapid.Int64Range(0, 2).Draw(rt, "s1")
				}
				if c.Dst != nil {
					dd := *c.Dst
					dd.Shape, dd.Codes, dd.L = shape, []int64{5}, Layout{Root: "rm"}
					c.Dst = &dd
				}
				if inF54(c) {
					rec.Class("excluded:F54")
					c.Form = "TS"
				}
				return c
			})
		}
	}
}
