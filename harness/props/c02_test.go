package props

import (
	"fmt"
	"testing"

	"gorgonia.org/tensor"
	"pgregory.net/rapid"
)

// C02 — slicing selects exactly the requested sub-array.

// SpecJ is one slice-list entry of a case: K is "nil", "idx" (single index A) or "rng" (A:B:S).
type SpecJ struct {
	K string `json:"k"`
	A int    `json:"a,omitempty"`
	B int    `json:"b,omitempty"`
	S int    `json:"s,omitempty"`
}

func (s SpecJ) model() SpecM {
	switch s.K {
	case "nil":
		return SpecM{Nil: true}
	case "idx":
		return SpecM{Index: true, Start: s.A}
	}
	return SpecM{Start: s.A, End: s.B, Step: s.S}
}

func (s SpecJ) String() string {
	switch s.K {
	case "nil":
		return ":"
	case "idx":
		return fmt.Sprint(s.A)
	}
	return fmt.Sprintf("%d:%d:%d", s.A, s.B, s.S)
}

// lib turns the entry into a tensor.Slice, through the public S() when via=="S".
func (s SpecJ) lib(via string) tensor.Slice {
	switch s.K {
	case "nil":
		return nil
	case "idx":
		if via == "S" {
			return tensor.S(s.A)
		}
		return RS{s.A, s.A + 1, 0}
	}
	if via == "S" {
		return tensor.S(s.A, s.B, s.S)
	}
	return RS{s.A, s.B, s.S}
}

type C02Step struct {
	Op    string  `json:"op"` // "slice", "T", "narrow"
	Specs []SpecJ `json:"specs,omitempty"`
	Perm  []int   `json:"perm,omitempty"`
	Via   string  `json:"via,omitempty"`  // "RS" | "S" | "pkg" (tensor.Narrow) | "method"
	Into  string  `json:"into,omitempty"` // "" (Slice) | "fresh" | "view" | "self": destination of SliceInto
	Dim   int     `json:"dim,omitempty"`
	Start int     `json:"start,omitempty"`
	Len   int     `json:"len,omitempty"`
}

type C02Case struct {
	DT    string    `json:"dt"`
	Shape []int     `json:"shape"`
	L     Layout    `json:"layout"`
	Prog  []C02Step `json:"prog"`
	Base  int64     `json:"base"`
	// Release: afterwards the views are handed back to the pool one by one (last first) and the
	// tensors they were derived from are checked again
	Release bool `json:"release,omitempty"`
}

func init() { register("C02.slice", func() Case { return &C02Case{} }) }

func (c *C02Case) NTKey() string {
	depth := 0
	interesting := false
	for _, st := range c.Prog {
		if st.Op != "T" {
			depth++
		}
		for _, s := range st.Specs {
			if s.K == "rng" && (s.S > 1 || s.A > 0) && len(c.Shape) >= 2 {
				interesting = true
			}
		}
		if st.Op == "narrow" && st.Start > 0 && len(c.Shape) >= 2 {
			interesting = true
		}
	}
	if interesting || depth >= 2 {
		return fmt.Sprintf("%s|%v|%v|%v", c.DT, c.Shape, c.L, c.Prog)
	}
	return ""
}

// hiddenTail marks the entries of a caller-owned slice list beyond the length that is passed in.
var hiddenTail = RS{-7, -7, -7}

// inF2 is the region of known finding F2: a stepped range on the leading axis
// whose (clamped) extent is not a multiple of the step.
func inF2(shape []int, specs []SpecJ) bool {
	if len(specs) == 0 || len(shape) == 0 {
		return false
	}
	s := specs[0]
	if s.K != "rng" || s.S <= 1 {
		return false
	}
	end := s.B
	if end > shape[0] {
		end = shape[0]
	}
	return end > s.A && (end-s.A)%s.S != 0
}

// shapeMatches: got must be want with a subset of droppable axes removed; a
// one-element result may also be reported as a scalar.
func shapeMatches(got, want []int, droppable []bool) bool {
	if prod(want) == 1 && len(got) == 0 {
		return true
	}
	var rec func(i, j int) bool
	rec = func(i, j int) bool {
		if i == len(want) {
			return j == len(got)
		}
		if j < len(got) && got[j] == want[i] && rec(i+1, j+1) {
			return true
		}
		if droppable[i] && want[i] == 1 && rec(i+1, j) {
			return true
		}
		return false
	}
	return rec(0, 0)
}

func (c *C02Case) Run() string {
	d := dtByName(c.DT)
	arr := seqArr(d, c.Shape, c.Base)
	b, err := Build(arr, c.L, nil)
	if err != nil {
		return inconclusive
	}
	rec.Class("source:" + c.L.Kind())
	t := b.T
	m := arr.Clone()
	midx := append([]int{}, b.Idx...) // root logical index of each element of the current view
	type link struct {
		t *tensor.Dense
		m Arr
	}
	chain := []link{{t, m}} // every tensor of the history that is still what it was
	for si, st := range c.Prog {
		if len(m.Shape) == 0 && !(st.Op == "slice" && len(st.Specs) == 0) {
			break // the previous step produced a scalar: only the empty slice list applies to it
		}
		switch st.Op {
		case "T":
			if err := t.T(st.Perm...); err != nil {
				if len(st.Perm) == len(m.Shape) && !isIdentity(st.Perm) && prod(m.Shape) > 1 {
					return fmt.Sprintf("step %d: T(%v) on shape %v refused: %v", si, st.Perm, m.Shape, err)
				}
				continue
			}
			im := Arr{Shape: m.Shape, E: make([]interface{}, len(midx))}
			for k, j := range midx {
				im.E[k] = j
			}
			im = im.Permute(st.Perm)
			m = m.Permute(st.Perm)
			for k := range midx {
				midx[k] = im.E[k].(int)
			}
			if msg := compareAt(t, m, bitEqVal); msg != "" {
				return inconclusive // the transpose itself is C03's business
			}
			chain[len(chain)-1].m = m
			continue
		}
		specs := st.Specs
		if st.Op == "narrow" {
			specs = make([]SpecJ, st.Dim+1)
			for i := range specs {
				specs[i] = SpecJ{K: "nil"}
			}
			specs[st.Dim] = SpecJ{K: "rng", A: st.Start, B: st.Start + st.Len, S: 1}
		}
		// ---- model
		valid := len(specs) <= len(m.Shape)
		var sels [][]int
		var droppable []bool
		empty := false
		ambiguous := false
		if valid {
			for i, dim := range m.Shape {
				sp := SpecM{Nil: true}
				if i < len(specs) {
					sp = specs[i].model()
				}
				idx, ok := sp.sel(dim)
				if !ok {
					valid = false
					break
				}
				if sp.ambiguous(dim) {
					ambiguous = true
				}
				if len(idx) == 0 {
					empty = true
				}
				sels = append(sels, idx)
				droppable = append(droppable, !sp.Nil && len(idx) == 1)
			}
		}
		if valid && empty {
			rec.Class("excluded:empty-range")
			return "" // start == end: outside the domain (DESIGN 3.1)
		}
		// ---- library
		var v tensor.View
		var lerr error
		tailTouched := ""
		pan := try(func() {
			switch {
			case st.Op == "narrow" && st.Via == "pkg":
				v, lerr = tensor.Narrow(t, st.Dim, st.Start, st.Len)
			case st.Op == "narrow":
				v, lerr = t.Narrow(st.Dim, st.Start, st.Len)
			default:
				// the list is a prefix of a longer array the caller owns: what lies beyond its length is the caller's
				full := make([]tensor.Slice, len(specs)+3)
				for i := range full {
					full[i] = hiddenTail
				}
				sl := full[:len(specs)]
				for i, s := range specs {
					sl[i] = s.lib(st.Via)
				}
				type sval struct{ s, e, st int }
				var before []sval
				for _, x := range sl {
					if x == nil {
						before = append(before, sval{-99, -99, -99})
					} else {
						before = append(before, sval{x.Start(), x.End(), x.Step()})
					}
				}
				defer func() {
					for i := len(specs); i < len(full); i++ {
						if full[i] != tensor.Slice(hiddenTail) {
							lerr = nil
							tailTouched = fmt.Sprintf("entry %d beyond the length of the caller's slice list was overwritten with %v", i, full[i])
						}
					}
					// the Slice values themselves are the caller's: using them does not change them
					for i, x := range sl {
						if x == nil {
							continue
						}
						if now := (sval{x.Start(), x.End(), x.Step()}); now != before[i] {
							lerr = nil
							tailTouched = fmt.Sprintf("the caller's Slice value %d was changed from %v to %v by the call", i, before[i], now)
						}
					}
				}()
				switch st.Into {
				case "":
					v, lerr = t.Slice(sl...)
				case "fresh": // an unrelated tensor object is turned into the view (all its metadata is overridden)
					v, lerr = t.SliceInto(tensor.New(tensor.WithShape(5), tensor.Of(tensor.Byte)), sl...)
				case "freshT": // ... one that was in use before: a lazy transposition is still pending on it
					dst := tensor.New(tensor.WithShape(2, 3), tensor.Of(tensor.Float64))
					if terr := dst.T(); terr != nil {
						lerr = terr
						return
					}
					v, lerr = t.SliceInto(dst, sl...)
				case "view": // a view object of the same source is recycled
					pv, perr := t.Slice()
					if perr != nil {
						lerr = perr
						return
					}
					v, lerr = t.SliceInto(pv.(*tensor.Dense), sl...)
				case "self": // the tensor is narrowed in place
					v, lerr = t.SliceInto(t, sl...)
				}
			}
		})
		desc := fmt.Sprintf("step %d: %v%v on shape %v (source %v)", si, st.Op, specs, m.Shape, c.L)
		if pan != "" {
			return desc + " panicked: " + pan
		}
		if tailTouched != "" {
			return desc + ": " + tailTouched
		}
		if !valid {
			rec.Class("invalid-spec")
			if lerr == nil {
				return desc + fmt.Sprintf(" is invalid but was accepted (result shape %v)", v.Shape())
			}
			if msg := compareAt(t, m, bitEqVal); msg != "" {
				return desc + " was refused but the source changed: " + msg
			}
			if diff := b.FrameDiff(b.RootE); diff != "" {
				return desc + " was refused but storage changed: " + diff
			}
			if msg := derivedProbe(t, m); msg != "" {
				return desc + " was refused but left the source in another state: " + msg
			}
			// a lazy transposition that was pending on the source before the refused call can still be undone
			if n := len(c.L.Steps); si == 0 && t == b.T && n > 0 && c.L.Steps[n-1].Op == "T" && c.L.Final == "" && prod(m.Shape) > 1 {
				if pan := try(func() { t.UT() }); pan != "" {
					return desc + " was refused; UT() of the source then panicked: " + pan
				}
				before := arr.Permute(invPerm(c.L.Steps[n-1].Perm))
				if msg := compareAt(t, before, bitEqVal); msg != "" {
					return desc + " was refused, but the transposition pending on the source can no longer be undone: " + msg
				}
			}
			return "" // a refused step ends the program
		}
		rec.Class("valid-spec")
		if lerr != nil && ambiguous {
			rec.Class("ambiguous-zero-step-refused")
			return ""
		}
		if lerr != nil {
			return desc + " is valid but was refused: " + lerr.Error()
		}
		wantShape := make([]int, len(sels))
		for i, s := range sels {
			wantShape[i] = len(s)
		}
		want := Arr{DT: d, Shape: wantShape, E: make([]interface{}, prod(wantShape))}
		widx := make([]int, len(want.E))
		src := make([]int, len(sels))
		for k, cc := range coordsOf(wantShape) {
			for i := range cc {
				src[i] = sels[i][cc[i]]
			}
			f := flatIdx(m.Shape, src)
			want.E[k] = m.E[f]
			widx[k] = midx[f]
		}
		vd, ok := v.(*tensor.Dense)
		if !ok {
			return desc + fmt.Sprintf(" returned a %T", v)
		}
		got := []int(vd.Shape())
		if !shapeMatches(got, wantShape, droppable) {
			return desc + fmt.Sprintf(" has shape %v, expected %v (droppable axes %v)", got, wantShape, droppable)
		}
		// elements in row-major order of the result's own shape
		want.Shape = cloneInts(got)
		if prod(got) != len(want.E) {
			return desc + fmt.Sprintf(" has %d elements, expected %d", prod(got), len(want.E))
		}
		if msg := compareAt(vd, want, bitEqVal); msg != "" {
			return desc + ": " + msg
		}
		if msg := metaInvariant(vd); msg != "" {
			return desc + ": " + msg
		}
		// a recycled view object carries nothing over from its earlier life: transposing it lazily and
		// undoing that addresses the same elements again
		if st.Into != "" && len(got) >= 2 && minInts(got) >= 2 {
			var terr error
			if pan := try(func() { terr = vd.T() }); pan != "" || terr != nil {
				return desc + fmt.Sprintf(": T() of the recycled view failed: %v %v", pan, terr)
			}
			rev := make([]int, len(got))
			for i := range rev {
				rev[i] = len(got) - 1 - i
			}
			if msg := compareAt(vd, want.Permute(rev), bitEqVal); msg != "" {
				return desc + ": T() of the recycled view: " + msg
			}
			if pan := try(func() { vd.UT() }); pan != "" {
				return desc + ": UT() of the recycled view panicked: " + pan
			}
			if msg := compareAt(vd, want, bitEqVal); msg != "" {
				return desc + ": T() and UT() of the recycled view: " + msg
			}
		}
		// materialised copy has the same elements
		var mat tensor.Tensor
		if pan := try(func() { mat = vd.Materialize() }); pan != "" {
			return desc + ": Materialize panicked: " + pan
		}
		if msg := compareAt(mat, want, bitEqVal); msg != "" {
			return desc + ": Materialize(): " + msg
		}
		// the view copied into a fresh tensor (of the source's data order) has the same elements:
		// the bulk paths trust the view's contiguity flag
		if len(got) > 0 && d.Name != "unsafe.Pointer" {
			var fresh *tensor.Dense
			if c.L.IsCM() {
				fresh = tensor.New(tensor.Of(d.T), tensor.WithShape(got...), tensor.AsFortran(nil))
			} else {
				fresh = tensor.New(tensor.Of(d.T), tensor.WithShape(got...))
			}
			var cerr error
			if pan := try(func() { cerr = tensor.Copy(fresh, vd) }); pan != "" {
				return desc + ": Copy of the view panicked: " + pan
			}
			if cerr == nil {
				if msg := compareAt(fresh, want, bitEqVal); msg != "" {
					return desc + ": Copy(fresh, view): " + msg
				}
			}
		}
		// aliasing probe: a write through the view lands on the source element start+c*step
		if len(want.E) > 0 && d.Name != "unsafe.Pointer" {
			for _, k := range []int{0, len(want.E) - 1} {
				cc := coordsOf(got)
				nv := conv(d, 243)
				if d.Name == "bool" {
					nv = !(want.E[k].(bool))
				} else if eqVal(nv, want.E[k]) {
					nv = conv(d, 244)
				}
				var coord []int
				if len(got) > 0 {
					coord = cc[k]
				}
				var serr error
				if pan := try(func() { serr = vd.SetAt(nv, coord...) }); pan != "" || serr != nil {
					return desc + fmt.Sprintf(": SetAt(%v) through the view failed: %v %v", coord, pan, serr)
				}
				exp := append([]interface{}{}, b.RootE...)
				exp[widx[k]] = nv
				if diff := b.FrameDiff(exp); diff != "" {
					return desc + fmt.Sprintf(": after writing %s through the view at %v: %s", fmtVal(nv), coord, diff)
				}
				_ = vd.SetAt(want.E[k], coord...)
			}
			if diff := b.FrameDiff(b.RootE); diff != "" {
				return desc + ": after restoring: " + diff
			}
			// a bulk write through the view (Memset decides by the view's own bookkeeping, not by coordinates)
			nv := conv(d, 245)
			if d.Name == "bool" {
				nv = true
			}
			var merr error
			if pan := try(func() { merr = vd.Memset(nv) }); pan != "" {
				return desc + ": Memset through the view panicked: " + pan
			}
			if merr == nil {
				exp := append([]interface{}{}, b.RootE...)
				for _, j := range widx {
					exp[j] = nv
				}
				if diff := b.FrameDiff(exp); diff != "" {
					return desc + fmt.Sprintf(": after Memset(%s) through the view: %s", fmtVal(nv), diff)
				}
				for k, cc := range coordsOf(got) {
					if len(got) == 0 {
						cc = nil
					}
					_ = vd.SetAt(want.E[k], cc...)
				}
				if diff := b.FrameDiff(b.RootE); diff != "" {
					return desc + ": after restoring what Memset wrote: " + diff
				}
			}
		}
		if vd == t {
			chain = chain[:len(chain)-1] // narrowed in place: the wider tensor is gone
		}
		chain = append(chain, link{vd, want})
		t, m, midx = vd, want, widx
	}
	// the history: every tensor of the chain still is what it was, and stays so when the views derived
	// from it are handed back to the pool (their shape and stride records are theirs alone)
	verify := func(when string) string {
		for i, l := range chain {
			if len(l.m.Shape) > 0 && !eqInts([]int(l.t.Shape()), l.m.Shape) {
				return fmt.Sprintf("%s: tensor %d of the slicing history has shape %v, expected %v", when, i, l.t.Shape(), l.m.Shape)
			}
			if msg := compareAt(l.t, l.m, bitEqVal); msg != "" {
				return fmt.Sprintf("%s: tensor %d of the slicing history (shape %v): %s", when, i, l.m.Shape, msg)
			}
		}
		return ""
	}
	if msg := verify("after the program"); msg != "" {
		return msg
	}
	if c.Release {
		rec.Class("history:released")
		for len(chain) > 1 {
			last := chain[len(chain)-1]
			chain = chain[:len(chain)-1]
			if pan := try(func() { tensor.ReturnTensor(last.t) }); pan != "" {
				return "ReturnTensor(view) panicked: " + pan
			}
			// whatever the pool got back is handed out again and overwritten
			dirtyPools()
			if msg := verify(fmt.Sprintf("after returning view %d to the pool", len(chain))); msg != "" {
				return msg
			}
		}
	}
	return ""
}

// metaInvariant is the metadata invariant of C13: size = product of shape, the
// strides fit the shape and address pairwise distinct in-bounds positions.
func metaInvariant(t *tensor.Dense) string {
	sh := []int(t.Shape())
	if t.Shape().IsScalar() {
		if t.Size() != 1 {
			return fmt.Sprintf("scalar tensor reports size %d", t.Size())
		}
		return ""
	}
	if t.Size() != prod(sh) {
		return fmt.Sprintf("Size() = %d but shape %v has %d elements", t.Size(), sh, prod(sh))
	}
	st := t.Strides()
	if len(st) != len(sh) {
		if !(t.Shape().IsVector() && len(st) == 1) {
			return fmt.Sprintf("strides %v do not fit shape %v", st, sh)
		}
		return ""
	}
	ds := t.DataSize()
	seen := map[int]bool{}
	for _, c := range coordsOf(sh) {
		off := 0
		for i := range c {
			off += c[i] * st[i]
		}
		if off < 0 || off >= ds {
			return fmt.Sprintf("coordinate %v of shape %v strides %v addresses offset %d outside [0,%d)", c, sh, st, off, ds)
		}
		if seen[off] {
			return fmt.Sprintf("shape %v strides %v address offset %d twice", sh, st, off)
		}
		seen[off] = true
	}
	return ""
}

// ---------------------------------------------------------------- generators

func genSpec(t *rapid.T, dim int, label string) SpecJ {
	switch rapid.IntRange(0, 9).Draw(t, label+"k") {
	case 0, 1:
		return SpecJ{K: "nil"}
	case 2, 3:
		return SpecJ{K: "idx", A: rapid.IntRange(-1, dim+1).Draw(t, label+"i")}
	}
	a := rapid.IntRange(-1, dim+1).Draw(t, label+"a")
	bb := rapid.IntRange(-1, dim+2).Draw(t, label+"b")
	s := rapid.IntRange(0, 3).Draw(t, label+"s")
	// bias towards valid ranges
	if rapid.IntRange(0, 3).Draw(t, label+"fix") > 0 {
		if a < 0 {
			a = 0
		}
		if a >= dim {
			a = dim - 1
		}
		if bb <= a {
			bb = a + 1 + rapid.IntRange(0, dim).Draw(t, label+"ext")
		}
		if s == 0 && bb-a > 1 {
			s = 1
		}
	}
	return SpecJ{K: "rng", A: a, B: bb, S: s}
}

func avoidEmptyAndF2(shape []int, specs []SpecJ) []SpecJ {
	for i := range specs {
		if specs[i].K == "rng" && specs[i].A == specs[i].B {
			specs[i].B++
			rec.Class("excluded:empty-range(by construction)")
		}
		if specs[i].K == "rng" && i < len(shape) {
			end := specs[i].B
			if end > shape[i] {
				end = shape[i]
			}
			if end == specs[i].A && specs[i].A >= 0 && specs[i].A < shape[i] {
				specs[i].B = specs[i].A + 1
			}
		}
	}
	if inF2(shape, specs) {
		rec.Class("excluded:F2")
		s := &specs[0]
		end := s.B
		if end > shape[0] {
			end = shape[0]
		}
		n := (end - s.A) / s.S
		if n < 1 {
			s.S = 1
		} else {
			s.B = s.A + n*s.S
		}
	}
	return specs
}

// modelShapeAfter applies a (valid) slice to a shape the way the library does
// (dropping explicitly ranged length-one axes), or nil when invalid.
func modelShapeAfter(shape []int, specs []SpecJ) []int {
	if len(specs) > len(shape) {
		return nil
	}
	var out []int
	for i, dim := range shape {
		sp := SpecM{Nil: true}
		if i < len(specs) {
			sp = specs[i].model()
		}
		idx, ok := sp.sel(dim)
		if !ok || len(idx) == 0 {
			return nil
		}
		if len(idx) == 1 && !sp.Nil {
			continue
		}
		out = append(out, len(idx))
	}
	if out == nil {
		out = []int{}
	}
	return out
}

var c02DTs = []DT{dtInt8, dtInt16, dtF32, dtF64, dtC128, dtStr, dtBool, dtInt, dtUint8, dtUint64, dtC64, dtUnsafe, dtRec24, dtArr6}
var c02Layouts = []string{"contig", "cmraw", "cmconv", "lazyT", "sliced", "stepsliced", "slicedT", "Tsliced", "picked", "pickslice", "cmraw+lazyT", "cmraw+sliced"}

func genC02Prog(rt *rapid.T, shape []int, depth int, sweepAxis int) []C02Step {
	var prog []C02Step
	cur := cloneInts(shape)
	for dpt := 0; dpt < depth && cur != nil && len(cur) > 0; dpt++ {
		if dpt > 0 && rapid.IntRange(0, 2).Draw(rt, "doT") == 0 && len(cur) >= 2 {
			p := genNonIdPerm(rt, len(cur), "perm")
			prog = append(prog, C02Step{Op: "T", Perm: p})
			ns := make([]int, len(cur))
			for i, ax := range p {
				ns[i] = cur[ax]
			}
			cur = ns
		}
		if rapid.IntRange(0, 7).Draw(rt, "narrow") == 0 {
			dim := rapid.IntRange(0, len(cur)-1).Draw(rt, "ndim")
			start := rapid.IntRange(0, cur[dim]).Draw(rt, "nstart")
			ln := rapid.IntRange(1, cur[dim]+1).Draw(rt, "nlen")
			via := rapid.SampledFrom([]string{"pkg", "method"}).Draw(rt, "nvia")
			st := C02Step{Op: "narrow", Dim: dim, Start: start, Len: ln, Via: via}
			specs := make([]SpecJ, dim+1)
			for i := range specs {
				specs[i] = SpecJ{K: "nil"}
			}
			specs[dim] = SpecJ{K: "rng", A: start, B: start + ln, S: 1}
			prog = append(prog, st)
			cur = modelShapeAfter(cur, specs)
			continue
		}
		n := rapid.IntRange(0, len(cur)+1).Draw(rt, "nspecs")
		if rapid.IntRange(0, 2).Draw(rt, "full") > 0 {
			n = len(cur)
		}
		specs := make([]SpecJ, n)
		for i := range specs {
			dim := 1
			if i < len(cur) {
				dim = cur[i]
			}
			specs[i] = genSpec(rt, dim, fmt.Sprintf("sp%d", i))
		}
		specs = avoidEmptyAndF2(cur, specs)
		into := ""
		if k := rapid.IntRange(0, 9).Draw(rt, "into"); k < 4 {
			into = []string{"fresh", "view", "self", "freshT"}[k]
		}
		prog = append(prog, C02Step{Op: "slice", Specs: specs, Via: rapid.SampledFrom([]string{"RS", "S"}).Draw(rt, "via"), Into: into})
		cur = modelShapeAfter(cur, specs)
	}
	if cur != nil && len(cur) == 0 && rapid.Bool().Draw(rt, "scalarslice") {
		prog = append(prog, C02Step{Op: "slice", Via: "S"}) // the empty slice list on a scalar
	}
	return prog
}

func TestC02(t *testing.T) {
	for _, d := range c02DTs {
		for _, lk := range c02Layouts {
			d, lk := d, lk
			cell(t, "C02", "C02.slice", d.Name+"/"+lk, nCases(25, 1200), func(rt *rapid.T) Case {
				shape := genShape(rt, 1, 4, 5, "s")
				if prod(shape) > 200 {
					shape[0] = 1
				}
				depth := rapid.IntRange(1, 3).Draw(rt, "depth")
				return &C02Case{DT: d.Name, Shape: shape, L: genLayoutKind(rt, lk, len(shape), "l"), Prog: genC02Prog(rt, shape, depth, -1), Base: rapid.Int64Range(0, 20).Draw(rt, "base"), Release: rapid.IntRange(0, 2).Draw(rt, "release") == 0}
			})
		}
	}
	// long axes (up to 40 entries): single indices and ranges far from the origin
	for _, lk := range []string{"contig", "lazyT", "cmraw"} {
		lk := lk
		cell(t, "C02", "C02.slice", "long-axis/"+lk, nCases(20, 500), func(rt *rapid.T) Case {
			n := rapid.IntRange(15, 40).Draw(rt, "n")
			shape := rapid.SampledFrom([][]int{{n}, {n, 2}, {2, n}}).Draw(rt, "shape")
			var specs []SpecJ
			for _, dim := range shape {
				switch rapid.IntRange(0, 3).Draw(rt, "kind") {
				case 0:
					specs = append(specs, SpecJ{K: "idx", A: rapid.IntRange(0, dim).Draw(rt, "i")})
				case 1:
					specs = append(specs, SpecJ{K: "nil"})
				default:
					a := rapid.IntRange(0, dim-1).Draw(rt, "a")
					specs = append(specs, SpecJ{K: "rng", A: a, B: rapid.IntRange(a+1, dim+2).Draw(rt, "b"), S: rapid.IntRange(1, 5).Draw(rt, "s")})
				}
			}
			specs = avoidEmptyAndF2(shape, specs)
			return &C02Case{DT: "int16", Shape: shape, L: genLayoutKind(rt, lk, len(shape), "l"), Prog: []C02Step{{Op: "slice", Specs: specs, Via: rapid.SampledFrom([]string{"RS", "S"}).Draw(rt, "via")}}, Base: 0}
		})
	}
	// complete per-axis sweep: one axis runs through every (start,end,step) triple and single index
	for _, lk := range []string{"contig", "lazyT", "stepsliced", "cmraw"} {
		lk := lk
		cell(t, "C02", "C02.sweep", "axis-sweep/"+lk, nCases(6, 150), func(rt *rapid.T) Case {
			shape := genShape(rt, 1, 3, 4, "s")
			return &C02Sweep{Shape: shape, L: genLayoutKind(rt, lk, len(shape), "l"), Axis: rapid.IntRange(0, len(shape)-1).Draw(rt, "axis"), Via: rapid.SampledFrom([]string{"RS", "S"}).Draw(rt, "via")}
		})
	}
}

// C02Sweep runs one axis through its complete spec set (other axes whole).
type C02Sweep struct {
	Shape []int  `json:"shape"`
	L     Layout `json:"layout"`
	Axis  int    `json:"axis"`
	Via   string `json:"via"`
}

func init() { register("C02.sweep", func() Case { return &C02Sweep{} }) }

func (c *C02Sweep) NTKey() string { return fmt.Sprintf("%v|%v|%d|%s", c.Shape, c.L, c.Axis, c.Via) }

func (c *C02Sweep) Run() string {
	dim := c.Shape[c.Axis]
	var all []SpecJ
	for i := -1; i <= dim+1; i++ {
		all = append(all, SpecJ{K: "idx", A: i})
	}
	for a := -1; a <= dim+1; a++ {
		for b := -1; b <= dim+2; b++ {
			for s := 0; s <= 3; s++ {
				all = append(all, SpecJ{K: "rng", A: a, B: b, S: s})
			}
		}
	}
	n := 0
	for _, sp := range all {
		specs := make([]SpecJ, c.Axis+1)
		for i := range specs {
			specs[i] = SpecJ{K: "nil"}
		}
		specs[c.Axis] = sp
		if sp.K == "rng" && sp.A == sp.B {
			continue // empty range: outside the domain
		}
		if sp.K == "rng" && sp.A >= 0 && sp.A < dim && sp.B > dim && false {
			continue
		}
		if inF2(c.Shape, specs) {
			rec.Class("excluded:F2")
			continue
		}
		sub := &C02Case{DT: "int16", Shape: c.Shape, L: c.L, Prog: []C02Step{{Op: "slice", Specs: specs, Via: c.Via}}}
		resetLib()
		rec.Eval()
		if msg := sub.Run(); msg != "" && msg != inconclusive {
			return msg
		}
		n++
	}
	rec.ClassN("sweep-specs", n)
	return ""
}

func minInts(s []int) int {
	m := s[0]
	for _, x := range s[1:] {
		if x < m {
			m = x
		}
	}
	return m
}
