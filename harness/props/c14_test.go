package props

import (
	"bytes"
	"fmt"
	"testing"

	"gorgonia.org/tensor"
	"pgregory.net/rapid"
)

// C14 — serialisation round-trips the logical tensor.

type C14Case struct {
	Format string `json:"format"` // gob | npy | csv | pb | fb
	DT     string `json:"dt"`
	A      Opnd   `json:"a"`
}

func init() { register("C14.roundtrip", func() Case { return &C14Case{} }) }

func (c *C14Case) NTKey() string {
	d := dtByName(c.DT)
	if c.A.L.IsContig() && !c.A.L.IsCM() && c.A.Mask == nil && len(c.A.Shape) == 2 && d.IsFloat() {
		return ""
	}
	return fmt.Sprintf("%s|%s|%v|%v|%v", c.Format, c.DT, c.A.Shape, c.A.L, c.A.Mask != nil)
}

// formatAccepts: the element types each format documents.
func formatAccepts(format string, d DT) bool {
	switch format {
	case "npy":
		return d.IsNum() || d.Name == "bool"
	case "csv":
		return d.IsInt() || d.IsFloat() || d.Name == "string"
	}
	return d.Name != "unsafe.Pointer" && d.Name != "uintptr"
}

func npyEquivalent(a, b tensor.Dtype) bool {
	if a == b {
		return true
	}
	eq := func(x, y, p, q tensor.Dtype) bool { return (x == p && y == q) || (x == q && y == p) }
	return eq(a, b, tensor.Int, tensor.Int64) || eq(a, b, tensor.Uint, tensor.Uint64)
}

func (c *C14Case) Run() string {
	d := dtByName(c.DT)
	A, msg := buildOpnd(&c.A, d)
	if msg != "" {
		return msg
	}
	t := A.b.T
	rec.Class("layout:" + c.A.L.Kind())
	desc := fmt.Sprintf("%s round-trip of %s %v%v masked=%v", c.Format, c.DT, c.A.Shape, c.A.L, c.A.Mask != nil)
	var enc []byte
	var eerr error
	pan := try(func() {
		switch c.Format {
		case "gob":
			enc, eerr = t.GobEncode()
		case "npy":
			var buf bytes.Buffer
			eerr = t.WriteNpy(&buf)
			enc = buf.Bytes()
		case "csv":
			var buf bytes.Buffer
			eerr = t.WriteCSV(&buf)
			enc = buf.Bytes()
		case "pb":
			enc, eerr = t.PBEncode()
		case "fb":
			enc, eerr = t.FBEncode()
		}
	})
	if pan != "" {
		return desc + ": encoding panicked: " + pan
	}
	if m := A.unchanged("the tensor being encoded"); m != "" {
		return desc + ": " + m
	}
	if eerr != nil {
		rec.Class("refused:" + c.Format)
		return "" // a refusal is allowed; writing different data is not
	}
	rec.Class("encoded:" + c.Format)
	dec := new(tensor.Dense)
	var derr error
	pan = try(func() {
		switch c.Format {
		case "gob":
			derr = dec.GobDecode(enc)
		case "npy":
			derr = dec.ReadNpy(bytes.NewReader(enc))
		case "csv":
			derr = dec.ReadCSV(bytes.NewReader(enc), tensor.As(d.T))
		case "pb":
			derr = dec.PBDecode(enc)
		case "fb":
			derr = dec.FBDecode(enc)
		}
	})
	if pan != "" {
		return desc + ": was encoded but decoding panicked: " + pan
	}
	if derr != nil {
		return desc + ": was encoded but cannot be decoded: " + derr.Error()
	}
	// element type
	if c.Format == "npy" {
		if !npyEquivalent(dec.Dtype(), d.T) {
			return desc + fmt.Sprintf(": decoded element type %v", dec.Dtype())
		}
	} else if dec.Dtype() != d.T {
		return desc + fmt.Sprintf(": decoded element type %v", dec.Dtype())
	}
	// shape, up to the library's vector-shape equivalence ((n) ~ (n,1) ~ (1,n)) and scalars
	want := A.arr
	ds := []int(dec.Shape())
	if !eqInts(ds, want.Shape) {
		// CSV has no notion of rank (it always reads a matrix); one-element tensors may come back as scalars
		if (c.Format == "csv" && prod(ds) == prod(want.Shape) && tensor.Shape(ds).Eq(tensor.Shape(want.Shape))) || (prod(want.Shape) == 1 && prod(ds) == 1) {
			want = Arr{DT: want.DT, Shape: ds, E: want.E}
		} else {
			return desc + fmt.Sprintf(": decoded shape %v, expected %v", ds, want.Shape)
		}
	}
	// elements (masked positions hold the fill value for formats that replace them)
	exp := Arr{DT: want.DT, Shape: want.Shape, E: append([]interface{}{}, want.E...)}
	conv64 := func(v interface{}) interface{} { return v }
	if c.Format == "npy" && dec.Dtype() != d.T {
		conv64 = func(v interface{}) interface{} {
			switch x := v.(type) {
			case int64:
				return int(x)
			case uint64:
				return uint(x)
			case int:
				return int64(x)
			case uint:
				return uint64(x)
			}
			return v
		}
	}
	for k := range exp.E {
		exp.E[k] = conv64(exp.E[k])
		if c.A.Mask != nil && c.A.Mask[k] && (c.Format == "npy" || c.Format == "csv") {
			exp.E[k] = conv64(t.FillValue())
		}
	}
	if m := compareAt(dec, exp, bitEqVal); m != "" {
		return desc + ": decoded " + m
	}
	// mask, where the format carries one
	if c.A.Mask != nil && dec.IsMasked() {
		for k, cc := range coordsOf(exp.Shape) {
			mb, err := dec.MaskAt(cc...)
			if err != nil || mb != c.A.Mask[k] {
				return desc + fmt.Sprintf(": decoded mask bit at %v is %v (err %v), expected %v", cc, mb, err, c.A.Mask[k])
			}
		}
	} else if c.A.Mask != nil && c.Format == "gob" {
		return desc + ": the mask was lost"
	}
	// usability: the decoded tensor behaves like the array it reads as
	if d.IsNum() && dec.Dtype() == d.T && len(exp.E) >= 1 && len(exp.Shape) > 0 && (c.A.Mask == nil) {
		onesArr := Arr{DT: d, Shape: exp.Shape, E: make([]interface{}, len(exp.E))}
		for k := range onesArr.E {
			onesArr.E[k] = conv(d, 1)
		}
		ob, err := Build(onesArr, Layout{Root: "rm"}, nil)
		if err == nil {
			var sum tensor.Tensor
			var serr error
			if p := try(func() { sum, serr = tensor.Add(dec, ob.T) }); p != "" {
				return desc + ": adding to the decoded tensor panicked: " + p
			}
			if serr == nil {
				ws := exp.Map(func(v interface{}) interface{} { r, _ := binop("Add", v, conv(d, 1)); return r })
				if m := compareAt(sum, ws, eqVal); m != "" {
					return desc + ": the decoded tensor reads correctly but computes wrongly (decoded+1): " + m
				}
			}
		}
	}
	return ""
}

var c14Layouts = []string{"contig", "cmraw", "cmconv", "lazyT", "sliced", "stepsliced", "physT"}

func genC14(rt *rapid.T, format string, d DT, lk string, masked bool) *C14Case {
	var shape []int
	switch format {
	case "csv":
		shape = rapid.SampledFrom([][]int{{2, 3}, {3, 2}, {1, 3}, {3, 1}, {2, 2}, {4, 3}, {1, 1}, {2, 1}}).Draw(rt, "shape")
	default:
		switch rapid.IntRange(0, 5).Draw(rt, "shapeclass") {
		case 0:
			shape = rapid.SampledFrom([][]int{{}, {1}, {3}, {1, 3}, {3, 1}, {1, 1}, {2, 1, 2}}).Draw(rt, "special")
		default:
			shape = genShape(rt, 1, 4, 3, "s")
		}
	}
	lo, hi := valueRange(d)
	sp := 25
	c := &C14Case{Format: format, DT: d.Name}
	c.A = genOpnd(rt, shape, lk, lo, hi, sp, "a")
	if d.Name == "string" {
		c.A.Codes = genCodes(rt, prod(shape), 0, 9, 50, "sv")
	}
	if masked {
		c.A.L = Layout{Root: c.A.L.Root}
		if c.A.L.Root == "cmconv" {
			c.A.L.Root = "rm"
		}
		c.A.Mask = make([]bool, prod(shape))
		for i := range c.A.Mask {
			c.A.Mask[i] = rapid.Bool().Draw(rt, "m")
		}
	}
	return c
}

func TestC14(t *testing.T) {
	for _, format := range []string{"gob", "npy", "csv", "pb", "fb"} {
		for _, d := range allDTs {
			if !formatAccepts(format, d) {
				continue
			}
			for _, lk := range c14Layouts {
				format, d, lk := format, d, lk
				cell(t, "C14", "C14.roundtrip", format+"/"+d.Name+"/"+lk, nCases(8, 250), func(rt *rapid.T) Case {
					return avoidC14Regions(genC14(rt, format, d, lk, false))
				})
			}
			format, d := format, d
			cell(t, "C14", "C14.roundtrip", format+"/"+d.Name+"/masked", nCases(8, 250), func(rt *rapid.T) Case {
				return avoidC14Regions(genC14(rt, format, d, rapid.SampledFrom([]string{"contig", "cmraw"}).Draw(rt, "lk"), true))
			})
		}
	}
}

// inF47: CSV of a single-column string matrix with an empty string: encoding/csv
// writes a record consisting of one empty field as a blank line, which its reader skips.
func avoidC14Regions(c *C14Case) *C14Case {
	if c.Format == "csv" && c.DT == "string" && len(c.A.Shape) == 2 && c.A.Shape[1] == 1 {
		for i, code := range c.A.Codes {
			if code >= 1000 && decode(dtStr, code) == "" {
				rec.Class("excluded:F47")
				c.A.Codes[i] = 1
			}
		}
	}
	return c
}
