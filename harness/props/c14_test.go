package props

import (
	"bufio"
	"bytes"
	"fmt"
	"io"
	"strings"
	"testing"
	"testing/iotest"

	"gorgonia.org/tensor"
	"pgregory.net/rapid"
)

// C14 — serialisation round-trips the logical tensor.

type C14Case struct {
	Format string `json:"format"` // gob | npy | csv | pb | fb
	DT     string `json:"dt"`
	A      Opnd   `json:"a"`
	Then   string `json:"then,omitempty"`   // the decoded tensor is written and read once more in this format
	Reader string `json:"reader,omitempty"` // npy/csv: how the stream delivers (""|half|onebyte|bufio16|dataerr)
	// UsedRecv: the receiver was decoded into before (a masked tensor with as many elements)
	UsedRecv bool `json:"usedRecv,omitempty"`
	// RecvCM (with UsedRecv): the used receiver is a live column-major masked matrix built by the constructor
	RecvCM bool `json:"recvCM,omitempty"`
	// RecvView: the receiver is a view of a live tensor, with as many elements of the same type as the stream
	// holds: decoding gives the receiver storage of its own, the parent keeps its elements
	RecvView bool `json:"recvView,omitempty"`
	// BackedRecv: the receiver was built over a slice the caller holds (float tensors: with their engine)
	BackedRecv bool `json:"backedRecv,omitempty"`
}

func init() { register("C14.roundtrip", func() Case { return &C14Case{} }) }

func (c *C14Case) NTKey() string {
	d := dtByName(c.DT)
	if c.A.L.IsContig() && !c.A.L.IsCM() && c.A.Mask == nil && len(c.A.Shape) == 2 && d.IsFloat() {
		return ""
	}
	return fmt.Sprintf("%s|%s|%v|%v|%v|%s|%s|%v|%v|%v|%v", c.Format, c.DT, c.A.Shape, c.A.L, c.A.Mask != nil, c.Then, c.Reader, c.UsedRecv, c.BackedRecv, c.RecvCM, c.RecvView)
}

// formatAccepts: the element types each format documents.
func formatAccepts(format string, d DT) bool {
	switch format {
	case "npy":
		return d.IsNum() || d.Name == "bool"
	case "csv":
		return d.IsInt() || d.IsFloat() || d.Name == "string"
	}
	return d.Name != "unsafe.Pointer" && d.Name != "uintptr"
}

func npyEquivalent(a, b tensor.Dtype) bool {
	if a == b {
		return true
	}
	eq := func(x, y, p, q tensor.Dtype) bool { return (x == p && y == q) || (x == q && y == p) }
	return eq(a, b, tensor.Int, tensor.Int64) || eq(a, b, tensor.Uint, tensor.Uint64)
}

func c14Encode(format string, t *tensor.Dense) (enc []byte, err error) {
	switch format {
	case "gob":
		return t.GobEncode()
	case "npy":
		var buf bytes.Buffer
		err = t.WriteNpy(&buf)
		return buf.Bytes(), err
	case "csv":
		var buf bytes.Buffer
		err = t.WriteCSV(&buf)
		return buf.Bytes(), err
	case "pb":
		return t.PBEncode()
	case "fb":
		return t.FBEncode()
	}
	panic("HARNESS: unknown format " + format)
}

func c14Decode(format string, enc []byte, d DT) (dec *tensor.Dense, err error) {
	return c14DecodeInto(new(tensor.Dense), format, enc, d, "")
}

// c14Reader: the stream-based decoders must cope with readers that deliver less than asked for.
func c14Reader(enc []byte, kind string) io.Reader {
	switch kind {
	case "half":
		return iotest.HalfReader(bytes.NewReader(enc))
	case "onebyte":
		return iotest.OneByteReader(bytes.NewReader(enc))
	case "bufio16":
		return bufio.NewReaderSize(iotest.HalfReader(bytes.NewReader(enc)), 16)
	case "dataerr":
		return iotest.DataErrReader(bytes.NewReader(enc))
	}
	return bytes.NewReader(enc)
}

func c14DecodeInto(dec *tensor.Dense, format string, enc []byte, d DT, reader string) (*tensor.Dense, error) {
	var err error
	switch format {
	case "gob":
		err = dec.GobDecode(enc)
	case "npy":
		err = dec.ReadNpy(c14Reader(enc, reader))
	case "csv":
		err = dec.ReadCSV(c14Reader(enc, reader), tensor.As(d.T))
	case "pb":
		err = dec.PBDecode(enc)
	case "fb":
		err = dec.FBDecode(enc)
	default:
		panic("HARNESS: unknown format " + format)
	}
	return dec, err
}

// c14Content compares a decoded tensor with the logical array it must hold, up to the
// representation limits of the format (CSV knows no rank; npy widens int/uint).
func c14Content(dec *tensor.Dense, format string, d DT, want Arr) string {
	if format == "npy" {
		if !npyEquivalent(dec.Dtype(), d.T) {
			return fmt.Sprintf("decoded element type %v", dec.Dtype())
		}
	} else if dec.Dtype() != d.T {
		return fmt.Sprintf("decoded element type %v", dec.Dtype())
	}
	ds := []int(dec.Shape())
	if !eqInts(ds, want.Shape) {
		if (format == "csv" && prod(ds) == prod(want.Shape) && tensor.Shape(ds).Eq(tensor.Shape(want.Shape))) || (prod(want.Shape) == 1 && prod(ds) == 1) || (prod(ds) == prod(want.Shape) && tensor.Shape(ds).Eq(tensor.Shape(want.Shape))) {
			want = Arr{DT: want.DT, Shape: ds, E: want.E}
		} else {
			return fmt.Sprintf("decoded shape %v, expected %v", ds, want.Shape)
		}
	}
	exp := Arr{DT: want.DT, Shape: want.Shape, E: append([]interface{}{}, want.E...)}
	if format == "npy" && dec.Dtype() != d.T {
		for k, v := range exp.E {
			switch x := v.(type) {
			case int64:
				exp.E[k] = int(x)
			case uint64:
				exp.E[k] = uint(x)
			case int:
				exp.E[k] = int64(x)
			case uint:
				exp.E[k] = uint64(x)
			}
		}
	}
	if m := compareAt(dec, exp, bitEqVal); m != "" {
		return "decoded " + m
	}
	return ""
}

func (c *C14Case) Run() string {
	d := dtByName(c.DT)
	A, msg := buildOpnd(&c.A, d)
	if msg != "" {
		return msg
	}
	t := A.b.T
	rec.Class("layout:" + c.A.L.Kind())
	desc := fmt.Sprintf("%s round-trip of %s %v%v masked=%v", c.Format, c.DT, c.A.Shape, c.A.L, c.A.Mask != nil)
	var enc []byte
	var eerr error
	pan := try(func() {
		switch c.Format {
		case "gob":
			enc, eerr = t.GobEncode()
		case "npy":
			var buf bytes.Buffer
			eerr = t.WriteNpy(&buf)
			enc = buf.Bytes()
		case "csv":
			var buf bytes.Buffer
			eerr = t.WriteCSV(&buf)
			enc = buf.Bytes()
		case "pb":
			enc, eerr = t.PBEncode()
		case "fb":
			enc, eerr = t.FBEncode()
		}
	})
	if pan != "" {
		return desc + ": encoding panicked: " + pan
	}
	if m := A.unchanged("the tensor being encoded"); m != "" {
		return desc + ": " + m
	}
	if eerr != nil {
		rec.Class("refused:" + c.Format)
		return "" // a refusal is allowed; writing different data is not
	}
	rec.Class("encoded:" + c.Format)
	// another tensor is encoded before the first encoding is read back: the bytes handed out are the caller's
	var other Arr
	var otherEnc []byte
	if formatAccepts(c.Format, d) && d.Name != "unsafe.Pointer" {
		other = seqArr(d, []int{2, 3}, 41)
		if ob, err := Build(other, Layout{Root: "rm"}, nil); err == nil {
			var oerr error
			if p := try(func() { otherEnc, oerr = c14Encode(c.Format, ob.T) }); p != "" || oerr != nil {
				otherEnc = nil
			}
		}
	}
	dec := new(tensor.Dense)
	if c.UsedRecv && len(A.arr.Shape) > 0 && formatAccepts(c.Format, d) && d.Name != "unsafe.Pointer" {
		// the receiver has been decoded into before: a masked tensor with as many elements, of another shape
		prev := seqArr(d, []int{prod(A.arr.Shape)}, 7)
		pm := make([]bool, len(prev.E))
		for i := range pm {
			pm[i] = i%2 == 0
		}
		if pb, err := Build(prev, Layout{Root: "rm"}, pm); err == nil {
			if penc, err := c14Encode(c.Format, pb.T); err == nil {
				if _, err := c14DecodeInto(dec, c.Format, penc, d, ""); err == nil {
					rec.Class("receiver:used")
					if !dec.IsMasked() {
						dec.ResetMask(true) // (a format without masks: the receiver gets one by hand, every bit set)
					}
				} else {
					dec = new(tensor.Dense)
				}
			}
		}
	}
	if c.UsedRecv && c.RecvCM && len(A.arr.Shape) > 0 && d.Name != "unsafe.Pointer" {
		n := prod(A.arr.Shape)
		shp := []int{n, 2}
		prev := seqArr(d, shp, 5)
		pm := make([]bool, len(prev.E))
		for i := range pm {
			pm[i] = i%3 != 0
		}
		if pb, err := Build(prev, Layout{Root: "cmraw"}, pm); err == nil {
			dec = pb.T
			rec.Class("receiver:live-column-major")
		}
	}
	var viewParent *tensor.Dense
	var viewParentVals []interface{}
	if c.RecvView && !c.UsedRecv && len(A.arr.Shape) > 0 && d.Name != "unsafe.Pointer" {
		n := prod(A.arr.Shape)
		prev := seqArr(d, []int{n + 2}, 9)
		viewParent = tensor.New(tensor.WithShape(n+2), tensor.WithBacking(mkBacking(d, prev.E)))
		viewParentVals = prev.E
		if v, err := viewParent.Slice(RS{1, n + 1, 1}); err == nil {
			dec = v.(*tensor.Dense)
			rec.Class("receiver:view")
		} else {
			viewParent = nil
		}
	}
	// ... or the receiver is a tensor the caller built over a slice of its own (with one of the engines):
	// decoding into it gives it new storage, the caller's slice stays as it was
	var held interface{}
	var heldVals []interface{}
	if c.BackedRecv && len(A.arr.Shape) > 0 && d.Name != "unsafe.Pointer" {
		prev := seqArr(d, []int{prod(A.arr.Shape) + 3}, 11)
		held = mkBacking(d, prev.E)
		heldVals = prev.E
		dec = tensor.New(tensor.WithShape(len(prev.E)), tensor.WithBacking(held))
		switch d.Name {
		case "float64":
			tensor.WithEngine(tensor.Float64Engine{})(dec)
		case "float32":
			tensor.WithEngine(tensor.Float32Engine{})(dec)
		}
		rec.Class("receiver:backed")
	}
	var derr error
	pan = try(func() { _, derr = c14DecodeInto(dec, c.Format, enc, d, c.Reader) })
	if viewParent != nil && pan == "" && derr == nil {
		now := backingVals(viewParent.Data())
		for k := range viewParentVals {
			if !bitEqVal(now[k], viewParentVals[k]) {
				return desc + fmt.Sprintf(": decoding into a view overwrote the tensor it was a view of: element %d was %s, is %s", k, fmtVal(viewParentVals[k]), fmtVal(now[k]))
			}
		}
	}
	if held != nil && pan == "" && derr == nil {
		now := backingVals(held)
		for k := range heldVals {
			if !bitEqVal(now[k], heldVals[k]) {
				return desc + fmt.Sprintf(": decoding into a tensor built over the caller's slice overwrote that slice: element %d was %s, is %s", k, fmtVal(heldVals[k]), fmtVal(now[k]))
			}
		}
	}
	if pan != "" {
		return desc + ": was encoded but decoding panicked: " + pan
	}
	if derr != nil {
		return desc + ": was encoded but cannot be decoded: " + derr.Error()
	}
	// element type
	if c.Format == "npy" {
		if !npyEquivalent(dec.Dtype(), d.T) {
			return desc + fmt.Sprintf(": decoded element type %v", dec.Dtype())
		}
	} else if dec.Dtype() != d.T {
		return desc + fmt.Sprintf(": decoded element type %v", dec.Dtype())
	}
	// shape, up to the library's vector-shape equivalence ((n) ~ (n,1) ~ (1,n)) and scalars
	want := A.arr
	ds := []int(dec.Shape())
	if !eqInts(ds, want.Shape) {
		// CSV has no notion of rank (it always reads a matrix); one-element tensors may come back as scalars
		if (c.Format == "csv" && prod(ds) == prod(want.Shape) && tensor.Shape(ds).Eq(tensor.Shape(want.Shape))) || (prod(want.Shape) == 1 && prod(ds) == 1) {
			want = Arr{DT: want.DT, Shape: ds, E: want.E}
		} else {
			return desc + fmt.Sprintf(": decoded shape %v, expected %v", ds, want.Shape)
		}
	}
	// elements (masked positions hold the fill value for formats that replace them)
	exp := Arr{DT: want.DT, Shape: want.Shape, E: append([]interface{}{}, want.E...)}
	conv64 := func(v interface{}) interface{} { return v }
	if c.Format == "npy" && dec.Dtype() != d.T {
		conv64 = func(v interface{}) interface{} {
			switch x := v.(type) {
			case int64:
				return int(x)
			case uint64:
				return uint(x)
			case int:
				return int64(x)
			case uint:
				return uint64(x)
			}
			return v
		}
	}
	for k := range exp.E {
		exp.E[k] = conv64(exp.E[k])
		if c.A.Mask != nil && c.A.Mask[k] && (c.Format == "npy" || c.Format == "csv") {
			exp.E[k] = conv64(t.FillValue())
		}
	}
	if m := compareAt(dec, exp, bitEqVal); m != "" {
		return desc + ": decoded " + m
	}
	// mask, where the format carries one
	if c.A.Mask != nil && dec.IsMasked() {
		for k, cc := range coordsOf(exp.Shape) {
			mb, err := dec.MaskAt(cc...)
			if err != nil || mb != c.A.Mask[k] {
				return desc + fmt.Sprintf(": decoded mask bit at %v is %v (err %v), expected %v", cc, mb, err, c.A.Mask[k])
			}
		}
	} else if c.A.Mask != nil && c.Format == "gob" {
		return desc + ": the mask was lost"
	}
	if c.A.Mask == nil && dec.IsMasked() {
		// an unmasked tensor reads back unmasked (a mask without a set bit is the same array)
		for k, mb := range dec.Mask() {
			if mb {
				return desc + fmt.Sprintf(": the tensor had no mask, the decoded tensor is masked (bit %d of its mask is set)", k)
			}
		}
	}
	// the decoded tensor is consistent in itself: observers that trust its flags rather than its strides
	// (whole-tensor views, cuts, clones, materialisation) and reductions along every axis see the same array
	if c.A.Mask == nil && len(exp.Shape) > 0 && dec.Dtype() == d.T {
		if m := derivedProbe(dec, exp); m != "" {
			return desc + ": the decoded tensor reads correctly element by element, but " + m
		}
		if d.IsNum() && !d.IsComplex() {
			for ax := range exp.Shape {
				var sum tensor.Tensor
				var serr error
				if p := try(func() { sum, serr = dec.Sum(ax) }); p != "" {
					return desc + fmt.Sprintf(": Sum(%d) of the decoded tensor panicked: %s", ax, p)
				}
				if serr != nil {
					continue
				}
				ws := exp.ReduceAxes([]int{ax}, foldFor("Sum"))
				if m := compareAt(sum, ws, eqVal); m != "" {
					return desc + fmt.Sprintf(": the decoded tensor reads correctly element by element, but its Sum(%d): %s", ax, m)
				}
			}
		}
	}
	// usability: the decoded tensor behaves like the array it reads as
	if d.IsNum() && dec.Dtype() == d.T && len(exp.E) >= 1 && len(exp.Shape) > 0 && (c.A.Mask == nil) {
		onesArr := Arr{DT: d, Shape: exp.Shape, E: make([]interface{}, len(exp.E))}
		for k := range onesArr.E {
			onesArr.E[k] = conv(d, 1)
		}
		ob, err := Build(onesArr, Layout{Root: "rm"}, nil)
		if err == nil {
			var sum tensor.Tensor
			var serr error
			if p := try(func() { sum, serr = tensor.Add(dec, ob.T) }); p != "" {
				return desc + ": adding to the decoded tensor panicked: " + p
			}
			if serr == nil {
				ws := exp.Map(func(v interface{}) interface{} { r, _ := binop("Add", v, conv(d, 1)); return r })
				if m := compareAt(sum, ws, eqVal); m != "" {
					return desc + ": the decoded tensor reads correctly but computes wrongly (decoded+1): " + m
				}
			}
		}
	}
	// the decoded tensor owns its elements: whatever happens to the bytes afterwards does not reach it
	if c.Format == "gob" || c.Format == "pb" || c.Format == "fb" {
		for i := range enc {
			enc[i] ^= 0xA5
		}
		if m := compareAt(dec, exp, bitEqVal); m != "" {
			return desc + ": after the caller overwrote the encoded bytes the decoded tensor changed: " + m
		}
		for i := range enc {
			enc[i] ^= 0xA5
		}
	}
	// a stream holds what follows as well: decoding one tensor consumes exactly its own bytes
	if c.Format == "npy" && c.A.Mask == nil {
		two := append(append([]byte{}, enc...), enc...)
		rd := c14Reader(two, c.Reader)
		first, second := new(tensor.Dense), new(tensor.Dense)
		var e1, e2 error
		if p := try(func() { e1 = first.ReadNpy(rd); e2 = second.ReadNpy(rd) }); p != "" {
			return desc + ": reading two arrays written back to back panicked: " + p
		}
		if e1 != nil || e2 != nil {
			return desc + fmt.Sprintf(": two arrays written back to back: first %v, second %v", e1, e2)
		}
		if m := c14Content(second, "npy", d, want); m != "" {
			return desc + ": the second of two arrays written back to back: " + m
		}
	}
	// options of one call do not stick: a CSV read without an element type yields float64
	if c.Format == "csv" && d.Name != "float64" {
		plain := new(tensor.Dense)
		if err := plain.ReadCSV(bytes.NewReader([]byte("1.5,2\n3,4\n"))); err != nil {
			return desc + ": afterwards ReadCSV of a plain numeric file without options failed: " + err.Error()
		}
		if plain.Dtype() != tensor.Float64 {
			return desc + fmt.Sprintf(": afterwards ReadCSV without options yields element type %v (the As() of the previous call stuck)", plain.Dtype())
		}
	}
	if otherEnc != nil {
		var odec *tensor.Dense
		var oerr error
		if p := try(func() { odec, oerr = c14Decode(c.Format, otherEnc, d) }); p != "" || oerr != nil {
			return desc + fmt.Sprintf(": a second tensor encoded in between cannot be decoded: %v %v", p, oerr)
		}
		if m := c14Content(odec, c.Format, d, other); m != "" {
			return desc + ": a second tensor encoded in between: " + m
		}
	}
	// the decoded tensor is a tensor like any other: written out again (in another format) it still
	// holds the same array
	if c.Then != "" && c.A.Mask == nil && formatAccepts(c.Then, d) && (c.Format != "npy" || dec.Dtype() == d.T) {
		var enc2 []byte
		var e2 error
		if p := try(func() { enc2, e2 = c14Encode(c.Then, dec) }); p != "" {
			return desc + fmt.Sprintf(": encoding the decoded tensor as %s panicked: %s", c.Then, p)
		}
		if e2 != nil {
			rec.Class("chain-refused:" + c.Then)
			return ""
		}
		var dec2 *tensor.Dense
		if p := try(func() { dec2, e2 = c14Decode(c.Then, enc2, d) }); p != "" || e2 != nil {
			return desc + fmt.Sprintf(": the decoded tensor was encoded as %s but that cannot be decoded: %v %v", c.Then, p, e2)
		}
		rec.Class("chain:" + c.Format + ">" + c.Then)
		if m := c14Content(dec2, c.Then, d, exp); m != "" {
			return desc + fmt.Sprintf(": then written as %s and read back: %s", c.Then, m)
		}
	}
	return ""
}

var c14Layouts = []string{"contig", "cmraw", "cmconv", "lazyT", "sliced", "stepsliced", "physT", "clonedview", "Tsliced", "slicedT", "picked", "leadsliced"}

// c14Wide: axes and strides beyond 127 and 255, where the formats' metadata stops fitting one byte of a
// varint, a length prefix or a header field.
var c14Wide = [][]int{{2, 130}, {3, 129}, {130, 2}, {2, 2, 70}, {300}, {1, 200}, {257, 1}, {2, 128}, {128, 3}}

func genC14(rt *rapid.T, format string, d DT, lk string, masked bool) *C14Case {
	var shape []int
	wide := strings.HasPrefix(lk, "wide:")
	if wide {
		lk = strings.TrimPrefix(lk, "wide:")
	}
	switch {
	case wide && format != "csv":
		shape = rapid.SampledFrom(c14Wide).Draw(rt, "wideshape")
	case wide:
		shape = rapid.SampledFrom([][]int{{2, 130}, {130, 2}, {3, 129}, {128, 3}}).Draw(rt, "wideshape")
	case format == "csv":
		shape = rapid.SampledFrom([][]int{{2, 3}, {3, 2}, {1, 3}, {3, 1}, {2, 2}, {4, 3}, {1, 1}, {2, 1}}).Draw(rt, "shape")
	default:
		switch rapid.IntRange(0, 5).Draw(rt, "shapeclass") {
		case 0:
			shape = rapid.SampledFrom([][]int{{}, {1}, {3}, {1, 3}, {3, 1}, {1, 1}, {2, 1, 2}}).Draw(rt, "special")
		default:
			shape = genShape(rt, 1, 4, 3, "s")
		}
	}
	lo, hi := valueRange(d)
	sp := 25
	c := &C14Case{Format: format, DT: d.Name}
	c.A = genOpnd(rt, shape, lk, lo, hi, sp, "a")
	if d.Name == "string" {
		c.A.Codes = genCodes(rt, prod(shape), 0, 9, 50, "sv")
		for i := range c.A.Codes {
			if rapid.IntRange(0, 4).Draw(rt, "xs") == 0 {
				c.A.Codes[i] = 3000 + int64(rapid.IntRange(0, len(extraStrings)-1).Draw(rt, "xsi"))
			}
		}
	}
	c.Reader = rapid.SampledFrom([]string{"", "", "half", "onebyte", "bufio16", "dataerr"}).Draw(rt, "reader")
	c.UsedRecv = rapid.IntRange(0, 3).Draw(rt, "usedrecv") == 0
	c.RecvCM = c.UsedRecv && rapid.Bool().Draw(rt, "recvcm")
	c.BackedRecv = !c.UsedRecv && rapid.IntRange(0, 3).Draw(rt, "backedrecv") == 0
	c.RecvView = !c.UsedRecv && !c.BackedRecv && rapid.IntRange(0, 3).Draw(rt, "recvview") == 0
	if !masked && rapid.IntRange(0, 2).Draw(rt, "chain") == 0 {
		c.Then = rapid.SampledFrom([]string{"gob", "npy", "csv", "pb", "fb"}).Draw(rt, "then")
	}
	if masked {
		// masked tensors too are written by logical content: mostly plain, now and then lazily transposed or a view
		if !(c.A.L.Final == "" && c.A.L.Root == "rm" && len(shape) > 0) {
			c.A.L = Layout{Root: c.A.L.Root}
		}
		if c.A.L.Root == "cmconv" {
			c.A.L.Root = "rm"
		}
		c.A.Mask = make([]bool, prod(shape))
		for i := range c.A.Mask {
			c.A.Mask[i] = rapid.Bool().Draw(rt, "m")
		}
	}
	return c
}

func TestC14(t *testing.T) {
	for _, format := range []string{"gob", "npy", "csv", "pb", "fb"} {
		for _, d := range allDTs {
			if !formatAccepts(format, d) {
				continue
			}
			for _, lk := range c14Layouts {
				format, d, lk := format, d, lk
				cell(t, "C14", "C14.roundtrip", format+"/"+d.Name+"/"+lk, nCases(8, 250), func(rt *rapid.T) Case {
					return avoidC14Regions(genC14(rt, format, d, lk, false))
				})
			}
			if d.Name == "float64" || d.Name == "int16" || d.Name == "string" || d.Name == "bool" {
				format, d := format, d
				cell(t, "C14", "C14.roundtrip", format+"/"+d.Name+"/wide", nCases(3, 40), func(rt *rapid.T) Case {
					lk := rapid.SampledFrom([]string{"contig", "cmraw", "lazyT", "sliced", "contig"}).Draw(rt, "lk")
					return avoidC14Regions(genC14(rt, format, d, "wide:"+lk, false))
				})
			}
			format, d := format, d
			cell(t, "C14", "C14.roundtrip", format+"/"+d.Name+"/masked", nCases(8, 250), func(rt *rapid.T) Case {
				return avoidC14Regions(genC14(rt, format, d, rapid.SampledFrom([]string{"contig", "cmraw", "contig", "lazyT", "sliced", "stepsliced"}).Draw(rt, "lk"), true))
			})
		}
	}
}

// inF47: CSV of a single-column string matrix with an empty string: encoding/csv
// writes a record consisting of one empty field as a blank line, which its reader skips.
func avoidC14Regions(c *C14Case) *C14Case {
	if (c.Format == "csv" || c.Then == "csv") && c.DT == "string" && (len(c.A.Shape) <= 1 || c.A.Shape[len(c.A.Shape)-1] == 1 || prod(c.A.Shape) == 1) {
		for i, code := range c.A.Codes {
			if code >= 1000 && decode(dtStr, code) == "" {
				rec.Class("excluded:F47")
				c.A.Codes[i] = 1
			}
		}
	}
	return c
}
