package props

import (
	"fmt"
	"math"
	"math/cmplx"
)

// Reference semantics of the element operations, written once with generics
// and instantiated per element type, so "the value Go's operator gives for
// that element type" is literally what is computed here.

type integer interface {
	~int | ~int8 | ~int16 | ~int32 | ~int64 | ~uint | ~uint8 | ~uint16 | ~uint32 | ~uint64
}
type float interface{ ~float32 | ~float64 }
type cplx interface{ ~complex64 | ~complex128 }
type realnum interface{ integer | float }
type ordered interface {
	integer | float | ~string | ~uintptr
}

// undefinedVal marks a coordinate where Go has no value (integer division by zero).
type undefinedVal struct{}

var undef = undefinedVal{}

func isUndef(v interface{}) bool { _, ok := v.(undefinedVal); return ok }

func arithInt[T integer](op string, a, b T) (interface{}, bool) {
	switch op {
	case "Add":
		return a + b, true
	case "Sub":
		return a - b, true
	case "Mul":
		return a * b, true
	case "Div":
		if b == 0 {
			return undef, true
		}
		return a / b, true
	case "Mod":
		if b == 0 {
			return undef, true
		}
		return a % b, true
	case "MinBetween":
		if a < b {
			return a, true
		}
		return b, true
	case "MaxBetween":
		if a > b {
			return a, true
		}
		return b, true
	}
	return nil, false // Pow: not defined for integers (the library refuses)
}

func arithF64(op string, a, b float64) (interface{}, bool) {
	switch op {
	case "Add":
		return a + b, true
	case "Sub":
		return a - b, true
	case "Mul":
		return a * b, true
	case "Div":
		return a / b, true
	case "Mod":
		return math.Mod(a, b), true
	case "Pow":
		return math.Pow(a, b), true
	case "MinBetween":
		if a < b {
			return a, true
		}
		return b, true
	case "MaxBetween":
		if a > b {
			return a, true
		}
		return b, true
	}
	return nil, false
}

func arithF32(op string, a, b float32) (interface{}, bool) {
	switch op {
	case "Add":
		return a + b, true
	case "Sub":
		return a - b, true
	case "Mul":
		return a * b, true
	case "Div":
		return a / b, true
	case "Mod":
		return float32(math.Mod(float64(a), float64(b))), true
	case "Pow":
		return float32(math.Pow(float64(a), float64(b))), true
	case "MinBetween":
		if a < b {
			return a, true
		}
		return b, true
	case "MaxBetween":
		if a > b {
			return a, true
		}
		return b, true
	}
	return nil, false
}

func arithC128(op string, a, b complex128) (interface{}, bool) {
	switch op {
	case "Add":
		return a + b, true
	case "Sub":
		return a - b, true
	case "Mul":
		return a * b, true
	case "Div":
		return a / b, true
	case "Pow":
		return cmplx.Pow(a, b), true
	}
	return nil, false
}

func arithC64(op string, a, b complex64) (interface{}, bool) {
	switch op {
	case "Add":
		return a + b, true
	case "Sub":
		return a - b, true
	case "Mul":
		return a * b, true
	case "Div":
		return a / b, true
	case "Pow":
		return complex64(cmplx.Pow(complex128(a), complex128(b))), true
	}
	return nil, false
}

// binop computes a op b in the element type; ok=false when the operation is
// not defined for that type (the library must refuse).
func binop(op string, a, b interface{}) (interface{}, bool) {
	switch x := a.(type) {
	case int:
		return arithInt(op, x, b.(int))
	case int8:
		return arithInt(op, x, b.(int8))
	case int16:
		return arithInt(op, x, b.(int16))
	case int32:
		return arithInt(op, x, b.(int32))
	case int64:
		return arithInt(op, x, b.(int64))
	case uint:
		return arithInt(op, x, b.(uint))
	case uint8:
		return arithInt(op, x, b.(uint8))
	case uint16:
		return arithInt(op, x, b.(uint16))
	case uint32:
		return arithInt(op, x, b.(uint32))
	case uint64:
		return arithInt(op, x, b.(uint64))
	case float32:
		return arithF32(op, x, b.(float32))
	case float64:
		return arithF64(op, x, b.(float64))
	case complex64:
		return arithC64(op, x, b.(complex64))
	case complex128:
		return arithC128(op, x, b.(complex128))
	case string:
		y := b.(string)
		switch op {
		case "MinBetween":
			if x < y {
				return x, true
			}
			return y, true
		case "MaxBetween":
			if x > y {
				return x, true
			}
			return y, true
		}
	}
	return nil, false
}

// opInexact says whether results of op on this type go through a maths
// routine and are compared with a tolerance.
func opInexact(op string, d DT) bool {
	if op == "Pow" {
		return true
	}
	if op == "Mod" && d.IsFloat() {
		return true
	}
	if op == "Div" && d.IsComplex() {
		return true // complex64 division may be evaluated in a wider type
	}
	return false
}

func cmpOrd[T ordered](op string, a, b T) (bool, bool) {
	switch op {
	case "Lt":
		return a < b, true
	case "Gt":
		return a > b, true
	case "Lte":
		return a <= b, true
	case "Gte":
		return a >= b, true
	case "ElEq":
		return a == b, true
	case "ElNe":
		return a != b, true
	}
	return false, false
}

func cmpEq[T comparable](op string, a, b T) (bool, bool) {
	switch op {
	case "ElEq":
		return a == b, true
	case "ElNe":
		return a != b, true
	}
	return false, false
}

// cmpop computes Go's comparison; ok=false when the type has no such comparison.
func cmpop(op string, a, b interface{}) (bool, bool) {
	switch x := a.(type) {
	case int:
		return cmpOrd(op, x, b.(int))
	case int8:
		return cmpOrd(op, x, b.(int8))
	case int16:
		return cmpOrd(op, x, b.(int16))
	case int32:
		return cmpOrd(op, x, b.(int32))
	case int64:
		return cmpOrd(op, x, b.(int64))
	case uint:
		return cmpOrd(op, x, b.(uint))
	case uint8:
		return cmpOrd(op, x, b.(uint8))
	case uint16:
		return cmpOrd(op, x, b.(uint16))
	case uint32:
		return cmpOrd(op, x, b.(uint32))
	case uint64:
		return cmpOrd(op, x, b.(uint64))
	case float32:
		return cmpOrd(op, x, b.(float32))
	case float64:
		return cmpOrd(op, x, b.(float64))
	case string:
		return cmpOrd(op, x, b.(string))
	case complex64:
		return cmpEq(op, x, b.(complex64))
	case complex128:
		return cmpEq(op, x, b.(complex128))
	case bool:
		return cmpEq(op, x, b.(bool))
	case uintptr:
		return cmpOrd(op, x, b.(uintptr))
	}
	return false, false
}

// one returns 1 of the element type, zero returns 0.
func oneOf(d DT) interface{}  { return conv(d, 1) }
func zeroOf(d DT) interface{} { return conv(d, 0) }

func unarySigned[T ~int | ~int8 | ~int16 | ~int32 | ~int64](op string, a T) (interface{}, bool) {
	switch op {
	case "Neg":
		return -a, true
	case "Inv":
		if a == 0 {
			return undef, true
		}
		return 1 / a, true
	case "Square":
		return a * a, true
	case "Cube":
		return a * a * a, true
	case "Abs":
		if a < 0 {
			return -a, true
		}
		return a, true
	case "Sign":
		if a < 0 {
			return T(-1), true // written as the library documents: -1, 0, 1
		}
		if a > 0 {
			return T(1), true
		}
		return T(0), true
	}
	return nil, false
}

func unaryUnsigned[T ~uint | ~uint8 | ~uint16 | ~uint32 | ~uint64](op string, a T) (interface{}, bool) {
	switch op {
	case "Neg":
		return -a, true
	case "Inv":
		if a == 0 {
			return undef, true
		}
		return 1 / a, true
	case "Square":
		return a * a, true
	case "Cube":
		return a * a * a, true
	}
	return nil, false
}

func unaryF64(op string, a float64) (interface{}, bool) {
	switch op {
	case "Neg":
		return -a, true
	case "Inv":
		return 1 / a, true
	case "Square":
		return a * a, true
	case "Cube":
		return a * a * a, true
	case "Abs":
		return math.Abs(a), true
	case "Sign":
		if a < 0 {
			return float64(-1), true
		}
		if a > 0 {
			return float64(1), true
		}
		return a, true // 0 and NaN
	case "Sqrt":
		return math.Sqrt(a), true
	case "Cbrt":
		return math.Cbrt(a), true
	case "InvSqrt":
		return 1 / math.Sqrt(a), true
	case "Exp":
		return math.Exp(a), true
	case "Log":
		return math.Log(a), true
	case "Log2":
		return math.Log2(a), true
	case "Log10":
		return math.Log10(a), true
	case "Tanh":
		return math.Tanh(a), true
	}
	return nil, false
}

func unaryC128(op string, a complex128) (interface{}, bool) {
	switch op {
	case "Neg":
		return -a, true
	case "Inv":
		return 1 / a, true
	case "Square":
		return a * a, true
	case "Cube":
		return a * a * a, true
	case "Sqrt":
		return cmplx.Sqrt(a), true
	case "Exp":
		return cmplx.Exp(a), true
	case "Log":
		return cmplx.Log(a), true
	case "Log10":
		return cmplx.Log10(a), true
	case "Tanh":
		return cmplx.Tanh(a), true
	case "InvSqrt":
		return 1 / cmplx.Sqrt(a), true
	}
	return nil, false
}

// unop computes the scalar function in the element type. For float32 and
// complex64 the reference is the wide routine rounded to the element type
// (compared with a tolerance by the caller for the inexact operations).
func unop(op string, a interface{}) (interface{}, bool) {
	switch x := a.(type) {
	case int:
		return unarySigned(op, x)
	case int8:
		return unarySigned(op, x)
	case int16:
		return unarySigned(op, x)
	case int32:
		return unarySigned(op, x)
	case int64:
		return unarySigned(op, x)
	case uint:
		return unaryUnsigned(op, x)
	case uint8:
		return unaryUnsigned(op, x)
	case uint16:
		return unaryUnsigned(op, x)
	case uint32:
		return unaryUnsigned(op, x)
	case uint64:
		return unaryUnsigned(op, x)
	case float64:
		return unaryF64(op, x)
	case float32:
		switch op {
		case "Neg":
			return -x, true
		case "Inv":
			return 1 / x, true
		case "Square":
			return x * x, true
		case "Cube":
			return x * x * x, true
		case "Abs":
			return float32(math.Abs(float64(x))), true
		}
		v, ok := unaryF64(op, float64(x))
		if !ok {
			return nil, false
		}
		return float32(v.(float64)), true
	case complex128:
		return unaryC128(op, x)
	case complex64:
		switch op {
		case "Neg":
			return -x, true
		case "Inv":
			return 1 / x, true
		case "Square":
			return x * x, true
		case "Cube":
			return x * x * x, true
		}
		v, ok := unaryC128(op, complex128(x))
		if !ok {
			return nil, false
		}
		return complex64(v.(complex128)), true
	}
	return nil, false
}

func unopInexact(op string, d DT) bool {
	switch op {
	case "Sqrt", "Cbrt", "InvSqrt", "Exp", "Log", "Log2", "Log10", "Tanh":
		return true
	case "Inv", "Cube":
		return d.IsComplex() || d.Name == "float32"
	}
	return false
}

// toF64 converts a real numeric value to float64 (for cross-type comparison).
func toF64(v interface{}) float64 {
	switch x := v.(type) {
	case int:
		return float64(x)
	case int8:
		return float64(x)
	case int16:
		return float64(x)
	case int32:
		return float64(x)
	case int64:
		return float64(x)
	case uint:
		return float64(x)
	case uint8:
		return float64(x)
	case uint16:
		return float64(x)
	case uint32:
		return float64(x)
	case uint64:
		return float64(x)
	case float32:
		return float64(x)
	case float64:
		return x
	case bool:
		if x {
			return 1
		}
		return 0
	}
	panic(fmt.Sprintf("HARNESS: toF64(%T)", v))
}

func toC128(v interface{}) complex128 {
	switch x := v.(type) {
	case complex64:
		return complex128(x)
	case complex128:
		return x
	}
	return complex(toF64(v), 0)
}

// fromF64 converts a float64 that is exactly representable back into the type.
func fromF64(d DT, f float64) interface{} {
	switch d.Name {
	case "int":
		return int(f)
	case "int8":
		return int8(f)
	case "int16":
		return int16(f)
	case "int32":
		return int32(f)
	case "int64":
		return int64(f)
	case "uint":
		return uint(f)
	case "uint8":
		return uint8(f)
	case "uint16":
		return uint16(f)
	case "uint32":
		return uint32(f)
	case "uint64":
		return uint64(f)
	case "float32":
		return float32(f)
	case "float64":
		return f
	case "complex64":
		return complex(float32(f), 0)
	case "complex128":
		return complex(f, 0)
	}
	panic("HARNESS: fromF64 " + d.Name)
}

// mapElems applies f to every element.
func (a Arr) Map(f func(interface{}) interface{}) Arr {
	r := Arr{DT: a.DT, Shape: cloneInts(a.Shape), E: make([]interface{}, len(a.E))}
	for i, v := range a.E {
		r.E[i] = f(v)
	}
	return r
}

// reduceAxes folds the array along the given (distinct, valid) axes.
// fold(acc, v) combines; the first element along the fold seeds acc.
func (a Arr) ReduceAxes(axes []int, fold func(acc, v interface{}) interface{}) Arr {
	red := make([]bool, len(a.Shape))
	for _, ax := range axes {
		red[ax] = true
	}
	var outShape []int
	for i, d := range a.Shape {
		if !red[i] {
			outShape = append(outShape, d)
		}
	}
	if outShape == nil {
		outShape = []int{}
	}
	out := Arr{DT: a.DT, Shape: outShape, E: make([]interface{}, prod(outShape))}
	seen := make([]bool, len(out.E))
	oc := make([]int, 0, len(outShape))
	for k, c := range coordsOf(a.Shape) {
		oc = oc[:0]
		for i := range c {
			if !red[i] {
				oc = append(oc, c[i])
			}
		}
		j := flatIdx(outShape, oc)
		if !seen[j] {
			seen[j] = true
			out.E[j] = a.E[k]
		} else {
			out.E[j] = fold(out.E[j], a.E[k])
		}
	}
	return out
}
