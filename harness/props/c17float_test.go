package props

import (
	"fmt"
	"testing"

	"gorgonia.org/tensor"
	"pgregory.net/rapid"
)

// C17Float — the float32 and the float64 specialisation of an operation are the same function, also
// where the model asserts nothing (the position of a NaN among the values folded by Max/Min, ordered
// comparisons with NaN, signed zeros): one set of inputs that both types hold exactly - small
// integers, halves and quarters, +-Inf, NaN, -0 - goes through both, and the results must agree
// element for element after conversion.
type C17Float struct {
	Op    string  `json:"op"` // Max Min Sum Argmax Argmin | MaxBetween MinBetween Lt Lte Gt Gte ElEq ElNe | Abs Neg Sign Square
	Shape []int   `json:"shape"`
	A     []int64 `json:"a"`
	B     []int64 `json:"b,omitempty"`
	Axis  int     `json:"axis"` // reductions: -1 = all axes
	Iter  bool    `json:"iter"`
	Form  string  `json:"form,omitempty"` // TT TS ST for the binary operations
}

func init() { register("C17.floatpair", func() Case { return &C17Float{} }) }

func (c *C17Float) NTKey() string {
	return fmt.Sprintf("%s|%v|%v|%v|%d|%v|%s", c.Op, c.Shape, c.A, c.B, c.Axis, c.Iter, c.Form)
}

// floatPairCodes are value codes whose decoded value is the same real number (or the same non-finite)
// in float32 and float64.
var floatPairCodes = []int64{-3, -2, -1, 0, 1, 2, 3, 4, 1000, 1001, 1002, 1002, 1003, 1007, 1008, 1009, 1011}

func (c *C17Float) Run() string {
	var outs []Arr
	for _, d := range floatDTs {
		resetLib()
		lay := Layout{Root: "rm"}
		if c.Iter {
			lay = (&C17Case{Iter: true, Shape: c.Shape}).layout()
		}
		ab, err := Build(mkArr(d, c.Shape, c.A), lay, nil)
		if err != nil {
			return inconclusive
		}
		var res tensor.Tensor
		var lerr error
		var scalarRes interface{}
		pan := try(func() {
			switch c.Op {
			case "Max", "Min", "Sum":
				var axes []int
				if c.Axis >= 0 {
					axes = []int{c.Axis}
				}
				switch c.Op {
				case "Max":
					res, lerr = ab.T.Max(axes...)
				case "Min":
					res, lerr = ab.T.Min(axes...)
				default:
					res, lerr = ab.T.Sum(axes...)
				}
			case "Argmax", "Argmin":
				ax := c.Axis
				if ax < 0 {
					ax = tensor.AllAxes
				}
				if c.Op == "Argmax" {
					res, lerr = ab.T.Argmax(ax)
				} else {
					res, lerr = ab.T.Argmin(ax)
				}
			case "Abs", "Neg", "Sign", "Square":
				res, lerr = pkgUnary[c.Op](ab.T)
			default:
				var x, y interface{} = ab.T, nil
				switch c.Form {
				case "TT":
					bb, err := Build(mkArr(d, c.Shape, c.B), lay, nil)
					if err != nil {
						lerr = err
						return
					}
					y = bb.T
				case "TS":
					y = decode(d, c.B[0])
				default:
					x, y = decode(d, c.B[0]), ab.T
				}
				res, lerr = pkgBinary[c.Op](x, y)
			}
		})
		_ = scalarRes
		if pan != "" || lerr != nil {
			// what is refused (or panics) for one type is the business of the per-type checks
			rec.Class("not-computed:" + d.Name)
			return ""
		}
		outs = append(outs, arrOf(res))
	}
	a, b := outs[0], outs[1]
	if !eqInts(a.Shape, b.Shape) || len(a.E) != len(b.E) {
		return fmt.Sprintf("%s over the same values %v: result shapes differ: float32 %v, float64 %v", c.Op, c.A, a.Shape, b.Shape)
	}
	for k := range a.E {
		x, y := a.E[k], b.E[k]
		if f, ok := y.(float64); ok {
			y = float32(f)
		}
		if !bitEqVal(x, y) {
			return fmt.Sprintf("%s (axis %d, form %q, iterator path %v) over the same values a=%s b=%v: element %d is %s for float32 but %s for float64", c.Op, c.Axis, c.Form, c.Iter, fmtVals(mkArr(dtF64, c.Shape, c.A).E), c.B, k, fmtVal(a.E[k]), fmtVal(b.E[k]))
		}
	}
	return ""
}

func c17FloatCells(t *testing.T) {
	ops := []string{"Max", "Min", "Sum", "Argmax", "Argmin", "MaxBetween", "MinBetween", "Lt", "Lte", "Gt", "Gte", "ElEq", "ElNe", "Abs", "Neg", "Sign", "Square"}
	for _, op := range ops {
		for _, iter := range []bool{false, true} {
			op, iter := op, iter
			cell(t, "C17", "C17.floatpair", fmt.Sprintf("floatpair/%s/iter=%v", op, iter), nCases(40, 800), func(rt *rapid.T) Case {
				shape := genShapeMin2(rt, 1, 3, 4, "s")
				c := &C17Float{Op: op, Shape: shape, Iter: iter, Axis: rapid.IntRange(-1, len(shape)-1).Draw(rt, "axis")}
				draw := func(label string) []int64 {
					r := make([]int64, prod(shape))
					for i := range r {
						r[i] = rapid.SampledFrom(floatPairCodes).Draw(rt, label)
					}
					return r
				}
				c.A, c.B = draw("a"), draw("b")
				c.Form = rapid.SampledFrom([]string{"TT", "TS", "ST"}).Draw(rt, "form")
				if (op == "Argmax" || op == "Argmin") && iter {
					c.Iter = false // the arg-reductions refuse non-contiguous operands
				}
				if (op == "MaxBetween" || op == "MinBetween") && c.Form == "ST" && iter {
					c.Form = "TS" // F25
				}
				return c
			})
		}
	}
}
