package props

import (
	"fmt"
	"reflect"
	"testing"

	"gonum.org/v1/gonum/mat"
	"gorgonia.org/tensor"
	"gorgonia.org/tensor/native"
	"pgregory.net/rapid"
)

// C04 — views alias their source, copies never do, and writes stay inside the view.

type C04Write struct {
	DT    string `json:"dt"`
	A     Opnd   `json:"view"`
	Write string `json:"write"` // Memset | Zero | SetAtSweep | UnsafeNeg | UnsafeAdd | UnsafeAddScalar | CopyInto | ApplyUnsafe | RootSetAt
	Code  int64  `json:"code"`
	Src   *Opnd  `json:"src,omitempty"`
	Eng   string `json:"eng,omitempty"` // "" (StdEng) | "f32" | "f64": the type-specialised engines (float tensors only)
}

func init() { register("C04.write", func() Case { return &C04Write{} }) }

func (c *C04Write) NTKey() string {
	return fmt.Sprintf("%s|%s|%v|%v|%s|%s", c.DT, c.Write, c.A.Shape, c.A.L, layoutOf(c.Src), c.Eng)
}

func (c *C04Write) Run() string {
	d := dtByName(c.DT)
	A, msg := buildOpnd(&c.A, d)
	if msg != "" {
		return msg
	}
	b := A.b
	if b.HasGaps() {
		rec.Class("view-with-gaps")
	} else {
		rec.Class("view-without-gaps")
	}
	t := b.T
	withEngine(t, c.Eng)
	n := len(A.arr.E)
	want := make([]interface{}, n)
	desc := fmt.Sprintf("%s through view %v%v of root %v (%s eng=%q)", c.Write, c.A.Shape, c.A.L, b.RootShp, c.DT, c.Eng)
	var lerr error
	var S *opndB
	pan := try(func() {
		switch c.Write {
		case "Memset":
			v := decode(d, c.Code)
			for k := range want {
				want[k] = v
			}
			lerr = t.Memset(v)
		case "Zero":
			for k := range want {
				want[k] = reflect.Zero(d.T.Type).Interface()
			}
			t.Zero()
		case "SetAtSweep":
			for k, cc := range coordsOf(c.A.Shape) {
				want[k] = conv(d, c.Code+int64(k))
				if d.Name == "bool" {
					want[k] = !(A.arr.E[k].(bool))
				}
				if lerr = t.SetAt(want[k], cc...); lerr != nil {
					return
				}
			}
		case "UnsafeNeg":
			for k := range want {
				want[k], _ = unop("Neg", A.arr.E[k])
			}
			_, lerr = tensor.Neg(t, tensor.UseUnsafe())
		case "UnsafeAddScalar":
			// an in-place operation with a scalar on either side; which one is picked by the case's code
			s := conv(d, 1+c.Code%7)
			ops := []string{"Add", "Sub", "Mul", "Add", "Sub", "Mul"}
			if d.IsInt() {
				ops = append(ops, "Mod", "Mod")
			}
			op := ops[int(c.Code/7)%len(ops)]
			left := (c.Code/3)%2 == 1 // the scalar is the left operand
			if op == "Mod" && left {
				for k := range A.arr.E { // s % a: keep the divisors away from zero
					if eqVal(A.arr.E[k], conv(d, 0)) {
						left = false
					}
				}
			}
			for k := range want {
				if left {
					want[k], _ = binop(op, s, A.arr.E[k])
				} else {
					want[k], _ = binop(op, A.arr.E[k], s)
				}
			}
			if left {
				_, lerr = pkgBinary[op](s, t, tensor.UseUnsafe())
			} else {
				_, lerr = pkgBinary[op](t, s, tensor.UseUnsafe())
			}
		case "CopyCross":
			// the source is another view of the same storage that starts at the same element: the view is
			// column 0 of a square matrix, the source its row 0 (they share exactly the first element)
			if len(b.RootShp) != 2 || b.RootShp[0] != b.RootShp[1] || b.Root == nil || b.Root == t {
				msg = inconclusive
				return
			}
			row, err := b.Root.Slice(RS{0, 1, 1})
			if err != nil || !eqInts([]int(row.Shape()), c.A.Shape) {
				msg = inconclusive
				return
			}
			for k := range want {
				want[k] = b.RootE[k] // row 0 of the root, in order
			}
			lerr = tensor.Copy(t, row)
		case "CopyIntoFlat":
			// from a vector with as many elements: they land in logical (row-major) order of the view
			flat := Opnd{Shape: []int{n}, Codes: make([]int64, n), L: Layout{Root: "rm"}}
			for k := range flat.Codes {
				flat.Codes[k] = 31 + (c.Code+int64(k))%29
			}
			var m string
			if S, m = buildOpnd(&flat, d); m != "" {
				msg = m
				return
			}
			copy(want, S.arr.E)
			lerr = tensor.Copy(t, S.b.T)
		case "CopyToInto":
			// Dense.CopyTo with the view as the DESTINATION: refused for views on the pinned tree ("not yet
			// implemented"); whatever it does, it writes nothing outside the view
			src := Opnd{Shape: cloneInts(c.A.Shape), Codes: make([]int64, n), L: Layout{Root: "rm"}}
			for k := range src.Codes {
				src.Codes[k] = 31 + (c.Code+int64(k))%29
			}
			var m string
			if S, m = buildOpnd(&src, d); m != "" {
				msg = m
				return
			}
			if lerr = S.b.T.CopyTo(t); lerr != nil {
				rec.Class("copyto:refused")
				lerr = nil
				copy(want, A.arr.E) // refused: nothing changed
			} else {
				// CopyTo copies the underlying data and does not care about the destination's metadata (its
				// documentation): which coordinate gets which element is only defined for plain destinations.
				// What is asserted for every destination: the elements outside it stay as they are.
				rec.Class("copyto:accepted")
				now := readAll(t)
				copy(want, now)
			}
		case "UnsafeAdd", "CopyInto":
			var m string
			if S, m = buildOpnd(c.Src, d); m != "" {
				msg = m
				return
			}
			withEngine(S.b.T, c.Eng)
			if c.Write == "UnsafeAdd" {
				// in-place arithmetic: the operation is picked by the case's code
				op := []string{"Add", "Sub", "Mul"}[int(c.Code%3)]
				for k := range want {
					want[k], _ = binop(op, A.arr.E[k], S.arr.E[k])
				}
				_, lerr = pkgBinary[op](t, S.b.T, tensor.UseUnsafe())
			} else {
				copy(want, S.arr.E)
				lerr = tensor.Copy(t, S.b.T)
			}
		case "ApplyUnsafe":
			for k := range want {
				want[k] = applyModel(d, A.arr.E[k])
			}
			_, lerr = t.Apply(applyFunc(d, "plain"), tensor.UseUnsafe())
		case "RootSetAt":
			// a write through the source is visible through the view at the corresponding coordinate
			copy(want, A.arr.E)
			rootCoords := coordsOf(b.RootShp)
			for k, j := range b.Idx {
				if k%2 == 1 {
					continue
				}
				want[k] = conv(d, c.Code+int64(k))
				if d.Name == "bool" {
					want[k] = !(A.arr.E[k].(bool))
				}
				// the root handle may itself be lazily transposed (layout step 0): address it through raw storage instead
				if b.Root == b.T || len(b.L.Steps) > 0 && b.L.Steps[0].Op == "T" {
					setRaw(b, j, want[k])
				} else if lerr = b.Root.SetAt(want[k], rootCoords[j]...); lerr != nil {
					return
				}
			}
		default:
			panic("HARNESS: unknown write " + c.Write)
		}
	})
	if msg != "" {
		return msg
	}
	if pan != "" {
		return desc + " panicked: " + pan
	}
	if lerr != nil {
		return desc + " failed: " + lerr.Error()
	}
	// inside the view: the new values; outside: untouched
	if m := compareAt(t, Arr{DT: d, Shape: c.A.Shape, E: want}, eqVal); m != "" {
		return desc + ": the view reads: " + m
	}
	if !b.Detached {
		if diff := b.FrameDiff(b.ExpectRoot(want)); diff != "" {
			return desc + ": " + diff
		}
	}
	if S != nil {
		if m := S.unchanged("the source operand"); m != "" {
			return desc + ": " + m
		}
	}
	return ""
}

// setRaw writes directly into the root's backing slice (logical root index j).
func setRaw(b *Built, j int, v interface{}) {
	reflect.ValueOf(b.rawData).Index(b.rawPos[j]).Set(reflect.ValueOf(v))
}

// ---------------------------------------------------------------- copies

type C04Copy struct {
	DT   string `json:"dt"`
	A    Opnd   `json:"src"`
	Op   string `json:"op"` // Clone | Materialize | SafeT | pkgT | pkgTranspose | CopyFresh | CopyTo | ToMat64 | FromMat64 | Native
	Perm []int  `json:"perm,omitempty"`
	// Unsafe (ToMat64): UseUnsafe() is passed - the matrix may share the tensor's storage
	Unsafe bool `json:"unsafe,omitempty"`
}

func init() { register("C04.copy", func() Case { return &C04Copy{} }) }

func (c *C04Copy) NTKey() string {
	return fmt.Sprintf("%s|%s|%v|%v|%v|%v", c.DT, c.Op, c.A.Shape, c.A.L, c.Perm, c.Unsafe)
}

func (c *C04Copy) Run() string {
	d := dtByName(c.DT)
	A, msg := buildOpnd(&c.A, d)
	if msg != "" {
		return msg
	}
	rec.Class("layout:" + c.A.L.Kind())
	t := A.b.T
	desc := fmt.Sprintf("%s of %v%v (%s)", c.Op, c.A.Shape, c.A.L, c.DT)
	var cp *tensor.Dense
	var lerr error
	want := A.arr
	sharing := false // operations documented to share memory: only content is asserted
	var extra string
	pan := try(func() {
		switch c.Op {
		case "Clone":
			cp = t.Clone().(*tensor.Dense)
		case "Materialize", "pkgMaterialize":
			var m *tensor.Dense
			if c.Op == "pkgMaterialize" {
				m = tensor.Materialize(t).(*tensor.Dense)
			} else {
				m = t.Materialize().(*tensor.Dense)
			}
			if m == t {
				// not a view: returns the tensor itself by documented design; a slice of another tensor is a
				// view whatever its shape and must be copied out
				if c.A.L.Final == "" {
					for _, st := range c.A.L.Steps {
						if st.Op != "T" {
							extra = "Materialize of a slice returned the slice itself"
						}
					}
				}
				sharing = true
			}
			cp = m
		case "SafeT":
			cp, lerr = t.SafeT(cloneIntsNN(c.Perm)...)
			want = A.arr.Permute(c.Perm)
		case "pkgT":
			var r tensor.Tensor
			r, lerr = tensor.T(t, cloneIntsNN(c.Perm)...)
			if lerr == nil {
				cp = r.(*tensor.Dense)
			}
			want = A.arr.Permute(c.Perm)
		case "pkgTranspose":
			var r tensor.Tensor
			r, lerr = tensor.Transpose(t, cloneIntsNN(c.Perm)...)
			if lerr == nil {
				cp = r.(*tensor.Dense)
			}
			want = A.arr.Permute(c.Perm)
		case "CopyFresh":
			cp = tensor.New(tensor.Of(d.T), tensor.WithShape(c.A.Shape...))
			lerr = tensor.Copy(cp, t)
		case "CopyTo":
			cp = tensor.New(tensor.Of(d.T), tensor.WithShape(c.A.Shape...))
			lerr = t.CopyTo(cp)
		case "CopyFlatten":
			// into a vector with as many elements: they arrive in logical (row-major) order
			cp = tensor.New(tensor.Of(d.T), tensor.WithShape(prod(c.A.Shape)))
			lerr = tensor.Copy(cp, t)
			want = Arr{DT: d, Shape: []int{prod(c.A.Shape)}, E: A.arr.E}
		case "ToMat64":
			var m *mat.Dense
			var err error
			if c.Unsafe {
				// without a copy where the storage allows it: the same elements all the same
				rec.Class("tomat64:unsafe")
				m, err = tensor.ToMat64(t, tensor.UseUnsafe())
			} else {
				m, err = tensor.ToMat64(t)
			}
			lerr = err
			if err == nil {
				r, cc := m.Dims()
				if r != c.A.Shape[0] || cc != c.A.Shape[1] {
					extra = fmt.Sprintf("matrix is %dx%d, expected %v", r, cc, c.A.Shape)
					return
				}
				for k, co := range coordsOf(c.A.Shape) {
					if !eqVal(m.At(co[0], co[1]), toF64(A.arr.E[k])) {
						extra = fmt.Sprintf("matrix element %v is %v, expected %v", co, m.At(co[0], co[1]), toF64(A.arr.E[k]))
						return
					}
				}
				if c.Unsafe {
					extra = A.unchanged("the source of ToMat64")
					sharing = true
					return
				}
				// a safe conversion is a copy
				orig00 := m.At(0, 0)
				m.Set(0, 0, 100)
				extra = A.unchanged("the source of ToMat64 (the matrix is a copy)")
				// and back
				back := tensor.FromMat64(m, tensor.As(d.T))
				m.Set(0, 0, orig00)
				back2 := tensor.FromMat64(m, tensor.As(d.T))
				_ = back
				if extra == "" {
					extra = compareAt(back2, A.arr, eqVal)
					if extra != "" {
						extra = "FromMat64(ToMat64(t)): " + extra
					}
				}
			}
			sharing = true
		case "Native":
			var nat interface{}
			switch len(c.A.Shape) {
			case 1:
				nat, lerr = native.Vector(t)
			case 2:
				nat, lerr = native.Matrix(t)
			case 3:
				nat, lerr = native.Tensor3(t)
			}
			if lerr == nil {
				// same elements at the same coordinates
				for k, co := range coordsOf(c.A.Shape) {
					v := reflect.ValueOf(nat)
					for _, i := range co {
						if i >= v.Len() {
							extra = fmt.Sprintf("native slice too short at %v", co)
							return
						}
						v = v.Index(i)
					}
					if !bitEqVal(v.Interface(), A.arr.E[k]) {
						extra = fmt.Sprintf("native element %v is %s, expected %s", co, fmtVal(v.Interface()), fmtVal(A.arr.E[k]))
						return
					}
				}
			}
			// the generated per-type functions and the native selection along every axis
			if lerr == nil && d.Name != "uintptr" && d.Name != "unsafe.Pointer" && extra == "" {
				fn := []string{"", "Vector", "Matrix", "Tensor3"}[len(c.A.Shape)]
				flat, dims, err := callTypedNative(fn, d, t, 0)
				if err != nil {
					extra = fmt.Sprintf("native.%s for %s refused what the generic conversion accepted: %v", fn, d.Name, err)
					return
				}
				if !eqInts(dims, c.A.Shape) || len(flat) != len(A.arr.E) {
					extra = fmt.Sprintf("native.%s for %s has dimensions %v, expected %v", fn, d.Name, dims, c.A.Shape)
					return
				}
				for k := range flat {
					if !bitEqVal(flat[k], A.arr.E[k]) {
						extra = fmt.Sprintf("native.%s for %s: element %d is %s, expected %s", fn, d.Name, k, fmtVal(flat[k]), fmtVal(A.arr.E[k]))
						return
					}
				}
				for axis := range c.A.Shape {
					flat, dims, err := callTypedNative("Select", d, t, axis)
					if err != nil {
						extra = fmt.Sprintf("native.Select(axis %d) for %s refused: %v", axis, d.Name, err)
						return
					}
					rows := prod(c.A.Shape[:axis+1])
					if len(c.A.Shape) == 1 {
						rows = 1
					}
					if len(dims) != 2 || dims[0] != rows || len(flat) != len(A.arr.E) {
						extra = fmt.Sprintf("native.Select(axis %d) for %s on shape %v has dimensions %v (%d elements), expected %d rows", axis, d.Name, c.A.Shape, dims, len(flat), rows)
						return
					}
					for k := range flat {
						if !bitEqVal(flat[k], A.arr.E[k]) {
							extra = fmt.Sprintf("native.Select(axis %d) for %s: element %d is %s, expected %s", axis, d.Name, k, fmtVal(flat[k]), fmtVal(A.arr.E[k]))
							return
						}
					}
				}
			}
			sharing = true
		default:
			panic("HARNESS: unknown copy op " + c.Op)
		}
	})
	if pan != "" {
		if c.Op == "ToMat64" && c.A.L.Final == "clone" {
			rec.Class("excluded-late:F36")
		}
		return desc + " panicked: " + pan
	}
	if lerr != nil {
		// refusals are accepted (e.g. CopyTo with views, native on non-contiguous): nothing may have changed
		rec.Class("refused:" + c.Op)
		return A.unchanged("the source of a refused copy")
	}
	if extra != "" {
		return desc + ": " + extra
	}
	rec.Class("copied:" + c.Op)
	if cp != nil {
		if cp.Dtype() != d.T {
			return desc + fmt.Sprintf(": copy has element type %v", cp.Dtype())
		}
		if m := compareAt(cp, want, bitEqVal); m != "" {
			return desc + ": the copy reads: " + m
		}
		if !sharing {
			if cp == t {
				return desc + ": returned the source itself"
			}
			if m := noAlias(cp, t, A.arr, d); m != "" {
				return desc + ": " + m
			}
			// and the other way round: a write to the source does not reach the copy
			if len(A.arr.E) > 0 && d.Name != "unsafe.Pointer" && !A.b.Detached {
				setRaw(A.b, A.b.Idx[0], conv(d, 247))
				m := compareAt(cp, want, bitEqVal)
				setRaw(A.b, A.b.Idx[0], A.arr.E[0])
				if m != "" {
					return desc + ": a write to the source changed the copy: " + m
				}
			}
		}
	}
	if m := A.unchanged("the source"); m != "" {
		return desc + ": " + m
	}
	// the copy owns its shape and stride records as well: moving its data for good and handing it back
	// to the pool leaves the source as it was, and a transposition pending on the source can still be undone
	if cp != nil && !sharing && cp != t {
		if pan := try(func() { _ = cp.Transpose(); tensor.ReturnTensor(cp) }); pan != "" {
			return desc + ": Transpose()/ReturnTensor of the copy panicked: " + pan
		}
		dirtyPools()
		if m := A.unchanged("the source"); m != "" {
			return desc + ": after the copy was transposed physically and returned to the pool: " + m
		}
		if n := len(c.A.L.Steps); n > 0 && c.A.L.Steps[n-1].Op == "T" && c.A.L.Final == "" && prod(c.A.Shape) > 1 {
			if pan := try(func() { t.UT() }); pan != "" {
				return desc + ": UT() of the source panicked after the copy was released: " + pan
			}
			before := A.arr.Permute(invPerm(c.A.L.Steps[n-1].Perm))
			if m := compareAt(t, before, bitEqVal); m != "" {
				return desc + ": after the copy was released, UT() of the source does not restore it: " + m
			}
			rec.Class("source-UT-after-release")
		}
	}
	return ""
}

// ---------------------------------------------------------------- cells

var c04ViewKinds = []string{"sliced", "stepsliced", "lazyT", "slicedT", "Tsliced", "picked", "pickslice", "leadsliced", "cmraw+sliced", "cmraw+lazyT", "cmraw", "cmconv"}
var c04SrcKinds = []string{"contig", "sliced", "stepsliced", "lazyT", "slicedT", "Tsliced", "picked", "pickslice", "materialized", "clonedview", "physT", "cmraw", "cmconv", "cmraw+sliced"}
var c04DTs = []DT{dtInt8, dtBool, dtInt16, dtF32, dtF64, dtC128, dtStr, dtUint32}

func TestC04(t *testing.T) {
	writes := []string{"Memset", "Zero", "SetAtSweep", "UnsafeNeg", "UnsafeAdd", "UnsafeAddScalar", "CopyInto", "CopyIntoFlat", "CopyToInto", "CopyCross", "ApplyUnsafe", "RootSetAt"}
	for _, w := range writes {
		for _, vk := range c04ViewKinds {
			w, vk := w, vk
			cell(t, "C04", "C04.write", w+"/"+vk, nCases(25, 800), func(rt *rapid.T) Case {
				dts := c04DTs
				switch w {
				case "Memset", "Zero", "SetAtSweep", "RootSetAt", "CopyInto", "CopyIntoFlat", "CopyCross":
					// the fills and copies have a kernel per element type (and a generic one for the others)
					dts = append(append(append([]DT{}, c04DTs...), allDTs...), extDTs...)
				}
				if w == "UnsafeNeg" || w == "UnsafeAdd" || w == "UnsafeAddScalar" {
					dts = []DT{dtInt8, dtInt16, dtF32, dtF64, dtC128, dtUint32}
				}
				d := rapid.SampledFrom(dts).Draw(rt, "dt")
				shape := genShapeMin2(rt, 1, 4, 3, "s")
				c := &C04Write{DT: d.Name, Write: w, Code: rapid.Int64Range(1, 60).Draw(rt, "code")}
				c.A = genOpnd(rt, shape, vk, 0, 30, 0, "a")
				if w == "UnsafeAdd" || w == "CopyInto" {
					s := genOpnd(rt, shape, rapid.SampledFrom(c06LayoutKinds).Draw(rt, "ls"), 31, 60, 0, "s")
					if rapid.IntRange(0, 2).Draw(rt, "samelayout") == 0 {
						s.L = c.A.L // the same slice of another parent: identical shape, strides and window
					}
					c.Src = &s
				}
				if w == "CopyCross" {
					n := rapid.IntRange(2, 4).Draw(rt, "n")
					c.A = Opnd{Shape: []int{n}, Codes: genCodes(rt, n, 0, 30, 0, "cv"), L: Layout{Root: "rm", Steps: []LStep{{Op: "pick", Axis: 1, Size: n, Idx: 0}}}}
				}
				if (w == "UnsafeAdd" || w == "UnsafeAddScalar") && d.IsFloat() && rapid.Bool().Draw(rt, "eng") {
					c.Eng = map[string]string{"float32": "f32", "float64": "f64"}[d.Name]
				}
				return c
			})
		}
	}
	copies := []string{"Clone", "Materialize", "pkgMaterialize", "SafeT", "pkgT", "pkgTranspose", "CopyFresh", "CopyTo", "CopyFlatten", "ToMat64", "Native"}
	for _, op := range copies {
		for _, sk := range c04SrcKinds {
			op, sk := op, sk
			cell(t, "C04", "C04.copy", op+"/"+sk, nCases(20, 600), func(rt *rapid.T) Case {
				d := rapid.SampledFrom(c04DTs).Draw(rt, "dt")
				if op != "Native" && op != "ToMat64" && rapid.Bool().Draw(rt, "anydt") {
					d = rapid.SampledFrom(append(append([]DT{}, allDTs...), extDTs...)).Draw(rt, "dt2")
				}
				minR, maxR := 1, 4
				switch op {
				case "ToMat64":
					minR, maxR = 2, 2
					d = rapid.SampledFrom([]DT{dtF64, dtF32, dtInt16, dtUint32, dtInt32, dtUint8, dtInt8, dtUint16}).Draw(rt, "mdt")
				case "Native":
					maxR = 3
				}
				shape := genShapeMin2(rt, minR, maxR, 3, "s")
				c := &C04Copy{DT: d.Name, Op: op}
				sp := 0
				if op == "ToMat64" && d.Size() <= 4 && !d.IsFloat() {
					sp = 20 // the extremes of the narrower integer types are exact in float64
				}
				c.A = genOpnd(rt, shape, sk, 0, 40, sp, "a")
				if op == "SafeT" || op == "pkgT" || op == "pkgTranspose" {
					c.Perm = genPerm(rt, len(shape), "perm")
				}
				c.Unsafe = op == "ToMat64" && rapid.IntRange(0, 2).Draw(rt, "tomatunsafe") == 0
				return avoidC04Regions(c)
			})
		}
	}
}

func avoidC04Regions(c *C04Copy) *C04Copy {
	// CopyTo is documented as a copy of the underlying data that does not care about
	// metadata: logical equality is only asserted for contiguous row-major sources
	if c.Op == "CopyTo" && !(c.A.L.IsContig() && !c.A.L.IsCM()) {
		rec.Class("copyto-raw-only")
		c.A.L = Layout{Root: "rm"}
	}
	// physical transposition of column-major tensors (F12) and of tensors owning
	// non-contiguous storage (F13c) are open findings
	if c.Op == "pkgTranspose" && (c.A.L.IsCM() || c.A.L.Final == "clone") {
		if c.A.L.IsCM() {
			rec.Class("excluded:F12")
		} else {
			rec.Class("excluded:F13c")
		}
		c.A.L = Layout{Root: "rm"}
	}
	return c
}
