#!/usr/bin/env python3
"""Regenerates MANIFEST.json from the table below (kept in one place so the file stays valid)."""
import json, os, subprocess
V = os.path.dirname(os.path.abspath(__file__))
hook_commits = ["b052f90", "0c70bad", "e49a9af"]
claimed = json.load(open(os.path.join(V, "harness", "claims.json")))
props = [json.loads(l)["id"] for l in open(os.path.join(V, "properties.jsonl"))]
checks, na = [], []
for p in props:
    c = claimed.get(p)
    if not c or c.get("not_applicable"):
        na.append({"property_id": p, "reason": (c or {}).get("not_applicable", "check not built yet (work in progress); see DESIGN.md section 4 for the design")})
        continue
    checks.append({
        "property_id": p,
        "quick_cmd": "./check %s --tier quick" % p,
        "thorough_cmd": "./check %s --tier thorough" % p,
        "evidence_file": "/verif/evidence/%s.json" % p,
        "replay_cmd_template": "./check %s --replay {path}" % p,
        "engine": "harness",
        "level_claimed": {"category": "exploration", "text": c["text"], "design_ref": "DESIGN.md section 4, " + p},
        "level_note": c["note"],
        "technique": c["technique"],
    })
m = {
    "version": 1,
    "setup_cmd": "./check --setup",
    "hooks": {
        "guard": "verif",
        "enable": "go test -tags verif (added by /verif/check to every build of the harness against /repo)",
        "baseline_off_cmd": "cd /repo && go test -mod=mod -json -vet=off -count=1 -timeout 25m ./...",
        "source_commits": hook_commits,
        "add_only": True,
    },
    "engines": [{"name": "harness", "path": "/verif/harness", "serves_properties": [c["property_id"] for c in checks],
                 "kind_free_text": "Go property-based tests on pgregory.net/rapid v1.3.0 (stratified cells, reference model, layout recipes) plus native go fuzzing via rapid.MakeFuzz, driven by /verif/check (python3)"}],
    "checks": checks,
    "notes": "All checks rebuild the harness against /repo's working tree with -tags verif. Genuine defects of the pinned tree are either repaired by fix: commits in /repo or listed in /verif/known_findings.json (see DESIGN.md sections 3.4 and 6).",
    "not_applicable": na,
}
json.dump(m, open(os.path.join(V, "MANIFEST.json"), "w"), indent=1)
print("checks:", len(checks), "not_applicable:", len(na))
