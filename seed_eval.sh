#!/bin/bash
# [SEED_SRC=dir SEED_TAG=r2] seed_eval.sh <Cxx> <A|B|C> [props...]: confirm a seeded change produced by a sub-agent and record what catches it.
#   confirms in a scratch worktree: patch applies, library builds, pinned suite green, demonstration fails
#   with the change and passes without; then runs the quick checks against that worktree.
prop=$1; var=$2; shift 2
src=${SEED_SRC:-/tmp/seed_out}/$prop/$var
id=${prop}${SEED_TAG}${var}
wt=/tmp/seedwt_$id
export GOFLAGS=-mod=mod GOPROXY=off GOSUMDB=off GOTOOLCHAIN=local
[ -f $src/patch.diff ] || { echo "$id: no patch"; exit 2; }
git -C /repo worktree remove --force $wt 2>/dev/null
git -C /repo worktree add -q $wt HEAD || exit 2
demo=$(ls $src/*_test.go | head -1)
# some demonstrations need a build flag (stated in the sub-agent's notes)
dflags=""
case $id in C18A|C18B) dflags="-race";; C20B) dflags="-tags inplacetranspose";; esac
[ -n "$SEED_DFLAGS" ] && dflags="$SEED_DFLAGS"
res="{}"
fail() { echo "$id REJECTED: $1"; git -C /repo worktree remove --force $wt; exit 1; }
# demo passes without the change
cp $demo $wt/ && (cd $wt && go test $dflags -vet=off -count=1 -run 'TestSeededDemo' . >/tmp/seed_$id.clean.log 2>&1) || fail "demonstration does not pass on the unchanged tree"
(cd $wt && git apply $src/patch.diff) || fail "patch does not apply"
(cd $wt && go build ./... ) >/dev/null 2>&1 || fail "does not build"
(cd $wt && go test $dflags -vet=off -count=1 -run 'TestSeededDemo' . >/tmp/seed_$id.mut.log 2>&1) && fail "demonstration passes with the change"
rm $wt/$(basename $demo)
suite() { (cd $wt && go test -vet=off -count=1 ./... 2>&1 | grep -E "^--- FAIL" | grep -v TestSaveLoadNumpy); }
s=$(suite); if [ -n "$s" ]; then s=$(suite); fi
[ -n "$s" ] && fail "pinned suite notices: $s"
props="$@"; [ -z "$props" ] && props="$prop C13 C16 C17 C19"
[ "$props" = "all" ] && props="C01 C02 C03 C04 C05 C06 C07 C08 C09 C10 C11 C12 C13 C14 C15 C16 C17 C18 C19 C20"
caught=""; incon=""
for p in $props; do
  out=$(cd /verif && VERIF_REPO=$wt ./check $p --tier quick 2>&1); rc=$?
  if [ $rc -eq 1 ]; then caught="$caught $p"; elif [ $rc -eq 2 ]; then incon="$incon $p"; fi
done
mkdir -p /verif/seeded/$id
cp $src/patch.diff /verif/seeded/$id/patch.diff; cp $demo /verif/seeded/$id/; cp $src/notes.txt /verif/seeded/$id/notes.txt 2>/dev/null
python3 - "$id" "$prop" "$caught" "$incon" "$props" <<'PY'
import json,sys
id,prop,caught,incon,props=sys.argv[1:6]
notes=open('/verif/seeded/%s/notes.txt'%id).read() if True else ''
meta={"id":id,"breaks_property":prop,"needs_to_manifest":notes.strip()[:1500],
 "confirmed":"scratch worktree of /repo HEAD: patch applies, go build ok, pinned suite green (TestSaveLoadNumpy is the baseline's always-failing test), demonstration TestSeededDemo* fails with the change and passes without",
 "ran":"./check <Cxx> --tier quick with VERIF_REPO=<scratch worktree> for: "+props,
 "caught_by":caught.split(),"inconclusive":incon.split()}
json.dump(meta,open('/verif/seeded/%s/meta.json'%id,'w'),indent=1)
print(id,"caught_by:",caught or "NONE","inconclusive:",incon)
PY
git -C /repo worktree remove --force $wt
h=$(python3 -c "import hashlib,sys;print(hashlib.sha1(sys.argv[1].encode()).hexdigest())" $wt)
rm -f /verif/.build/*-${h:0:8}.test /verif/.build/go.${h:0:10}.mod /verif/.build/go.${h:0:10}.sum 2>/dev/null
rm -rf /verif/.build/evidence-${h:0:10} /verif/.build/replays-new-${h:0:10}
