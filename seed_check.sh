#!/bin/bash
# seed_check.sh <seeded-id> <Cxx...>: run quick checks against a scratch worktree of /repo HEAD with
# /verif/seeded/<id>/patch.diff applied (no suite run, no demonstration: see seed_eval.sh for those).
id=$1; shift
wt=/tmp/seedchk_$id
export GOFLAGS=-mod=mod GOPROXY=off GOSUMDB=off GOTOOLCHAIN=local
git -C /repo worktree remove --force $wt 2>/dev/null
git -C /repo worktree add -q $wt HEAD || exit 2
(cd $wt && git apply /verif/seeded/$id/patch.diff) || { echo "$id: patch does not apply"; git -C /repo worktree remove --force $wt; exit 2; }
caught=""; incon=""
for p in "$@"; do
  out=$(cd /verif && VERIF_REPO=$wt VERIF_NO_REPLAY=1 ./check $p --tier ${TIER:-quick} 2>&1); rc=$?
  if [ $rc -eq 1 ]; then caught="$caught $p"; first=$(echo "$out" | grep -A1 "^VIOLATION" | sed -n 2p | cut -c1-220); elif [ $rc -eq 2 ]; then incon="$incon $p"; fi
done
echo "$id caught_by:${caught:- NONE} inconclusive:$incon :: $first"
git -C /repo worktree remove --force $wt
h=$(python3 -c "import hashlib,sys;print(hashlib.sha1(sys.argv[1].encode()).hexdigest())" $wt)
rm -f /verif/.build/*-${h:0:8}.test /verif/.build/go.${h:0:10}.mod /verif/.build/go.${h:0:10}.sum 2>/dev/null
rm -rf /verif/.build/evidence-${h:0:10} /verif/.build/replays-new-${h:0:10}
