#!/bin/bash
# For every fix: commit, revert it alone in a scratch worktree and ask the quick check of the
# property it belongs to (generated search only, no regression replays) whether it notices.
# usage: ./sensitivity.sh            (writes sensitivity.log)
cd /repo || exit 2
out=/verif/sensitivity.log; : > $out
python3 - <<'PY' > /tmp/sens_list.txt
import json
k=json.load(open('/verif/known_findings.json'))
seen=set()
for f in k['fixed']:
    key=(f['commit'],f['property'])
    if key in seen: continue
    seen.add(key); print(f['commit'],f['property'],f['id'])
PY
while read h prop id; do
  wt=/tmp/sens_$h
  git worktree add -q $wt HEAD 2>/dev/null || continue
  if (cd $wt && git revert --no-edit $h >/dev/null 2>&1); then
    res=$(cd /verif && VERIF_NO_REPLAY=1 VERIF_REPO=$wt ./check $prop --tier quick 2>&1 | grep -c "^VIOLATION")
    echo "$id $h $prop violations=$res" | tee -a $out
  else
    echo "$id $h $prop revert-conflict" | tee -a $out
  fi
  git worktree remove --force $wt
done < /tmp/sens_list.txt
rm -rf /verif/replays/new
